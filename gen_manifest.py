#!/usr/bin/env python3
"""Regenerates MANIFEST.json from the tables below (kept as code so that the manifest stays valid and
consistent with kani/harnesses.toml).  Run: python3 gen_manifest.py"""
import json
import os
import subprocess
import tomllib

ROOT = os.path.dirname(os.path.abspath(__file__))

TECH = "bounded model checking of the compiled Rust code (Kani 0.68 -> CBMC 6.11 -> CaDiCaL): kani::any() inputs, unwinding assertions, one SAT query per harness; counterexamples replayed natively (Kani concrete playback, layout-auditing allocator for memory-model verdicts)"

CLAIMS = {
    "C01": {
        "text": "Decides, for every value inside the stated bounds, the per-trigger predicates the router index evaluates: client IP in/not-in a CIDR range (all IPv4 and all IPv6 networks, prefix lengths and addresses, cross-family), date-time windows, time-of-day windows and weekday lists (start inclusive, end exclusive, each bound optional), and header conditions (defined / equals / starts / ends and their negations: case-insensitive name, any-of over duplicate header lines, all-of for the negated kinds) against arithmetic / bytewise references. Bounded model checking is the right level because the failing inputs are isolated boundary values (an instant equal to a window end, a /0 or /32 prefix) that sampling hits with negligible probability.",
        "note": "Claimed for the trigger predicates only; the bucket routing of the seven matcher layers (HashMap/BTreeMap/regex tree on the heap) is outside the claim (DESIGN C01). Instants 1970..2100 at 1 s resolution; weekday lists <= 2 entries. Trusted: Kani/CBMC, chrono's and cidr's code as compiled (they are encoded, not stubbed).",
        "design": "DESIGN.md §4 C01",
    },
    "C05": {
        "text": "Decides the response-status guards of the action (StatusCodeUpdate::get_status_code, LogOverride::get_log_override) against the reference of the property for all u16 status / fallback / response codes, up to two listed codes, and both include/exclude modes.",
        "note": "Kernels: the guards evaluated at use time, and Action::merge (an unconditional rule stays only as fallback of a conditional one; otherwise the later rule replaces) followed by the real get_status_code / should_log_request for all codes and flags (actions built through a cfg(kani) constructor hook). The sort + reset/stop loop of from_routes_rule over real Route<Rule> objects did not fit CBMC (measured: > 20 GB) and is outside the claim, as are sampling and header/body filters of the action.",
        "design": "DESIGN.md §4 C05",
    },
    "C07": {
        "text": "Panic-freedom (Kani's built-in checks: panics, unwrap/expect, slice/str indexing, arithmetic overflow, invalid pointer use) of enumerated kernels for arbitrary inputs within bounds: the marker Slice transformer (any from/to, ASCII and multi-byte), the status/log guards, the prefix cut, the FFI byte buffer operations.",
        "note": "Only the enumerated kernels; every entry point that parses (JSON, URLs, dates, CIDR strings, regex, CSS selectors), the HTML tokenizer and the analyses are outside the claim (DESIGN C07). Termination is covered up to the unwinding bounds only.",
        "design": "DESIGN.md §4 C07",
    },
    "C08": {
        "text": "Decides for ALL pairs of ASCII patterns up to the stated lengths that the prefix cut used by the tree is a common prefix, lies at group depth 0, is not directly after an unescaped backslash, is maximal among such cuts and is symmetric; and that get_prefix_with_char_size returns exactly the first k chars. This is the only place where pattern contents matter for the soundness of node regexes.",
        "note": "Prefix kernel for pattern pairs up to 6x6 ASCII chars (firm). Tree plumbing: insert/split/descend + find/len/is_empty vs an independent linear-scan matcher for all ASCII haystacks of length 2 on 2-pattern trees (case-sensitive and case-insensitive), and retain-to-empty / remove + re-insertion on 1-pattern trees; regex engine and Leaf map are the cfg(kani) models (validated natively). Removal/retain/collapse on trees with inner nodes, get(), 3-pattern trees and cache(None) were measured out of memory (16-24 GB) and are outside the claim (DESIGN C08, §6).",
        "design": "DESIGN.md §4 C08",
    },
    "C11": {
        "text": "Decides that the order on rules is a total order (antisymmetric, transitive, consistent with eq/partial_cmp) equal to (rank descending, id descending), for all ranks and all 2-byte ASCII ids of three rules.",
        "note": "Order kernel only (ids of exactly 2 ASCII bytes). Invariance of the fold under permutation is covered only where the C11-B harnesses are registered.",
        "design": "DESIGN.md §4 C11",
    },
    "C18": {
        "text": "Decides with CBMC's memory model (no double free, no use after free, no out-of-bounds, deallocation size == allocation size) that the FFI byte buffer round-trips, duplicates and releases correctly for every (length, capacity) shape in the bound and all byte contents; that a NULL body filter hands back a distinct buffer with equal bytes which the caller can release next to its own; that every documented-NULL entry point returns its neutral value; and that a header handed to C yields exactly one releasable node.",
        "note": "Buffer (from_vec, from_string, to_vec, into_vec, duplicate, clone, redirectionio_api_buffer_drop) for capacities <= 4; NULL-filter duplication; documented-NULL contracts of the action / body-filter entry points; a one-header list handed to C (one node, value string NULL iff it contains a NUL, caller releases node and strings once). Longer header lists read back from C (CStr/strlen), object handles of real actions / filters, requests, trusted proxies are outside the claim (DESIGN C18). Kani's allocator model is trusted.",
        "design": "DESIGN.md §4 C18",
    },
}

CLAIMS.update({
    "C03": {
        "text": "Decides for one text filter stage (the real TextFilterBodyAction::{new, filter, end}), for every action, all byte contents and every partition of a 2-byte body into three consecutive chunks (empty chunks included, plus trailing empty chunks and the empty body with 0/1/2 empty chunks), that the concatenated chunk outputs followed by the end-of-stream output equal the single-chunk result and the reference (append: b++c, prepend: c++b, replace: c). The failing inputs of this family are chunk patterns (an empty first chunk) that sampling rarely produces.",
        "note": "One text stage only. The chain plumbing of FilterBodyAction (do_filter/do_end/in_error) did not fit CBMC (measured: 2.4 M symex steps and out of memory at 16 GB for one stage and one partition), and the HTML stage (tokenizer) is out of reach: both are outside the claim, as are compressed bodies and bodies longer than 2 bytes (DESIGN C03).",
        "design": "DESIGN.md §4 C03, §6",
    },
    "C04": {
        "text": "Same harnesses as C03, read as the no-loss/no-duplication statement for insert-only text filters: for append/prepend the output with the inserted byte removed at its reference position equals the input, and replace emits the content exactly once, for all contents and all partitions within the bound.",
        "note": "One text stage only; HTML buffering, the pass-through gating (content type / unsupported encoding) and the error fallback are outside the claim (DESIGN C04).",
        "design": "DESIGN.md §4 C04, §6",
    },
    "C13": {
        "text": "Decides FilterHeaderAction::{new, filter} (the five HeaderAction implementations and create_header_action) against a reference fold for all 1-byte ASCII header values and filter values, over concrete name configurations (duplicates in mixed case, one match, no match, different filter names), for every single operation and eleven two-operation sequences including unknown operations, on 2 and 3 input headers: exact output list (names, values, order).",
        "note": "Names are concrete per configuration (symbolic names make every result Vec a heap object of symbolic length: out of memory at 16 GB), values symbolic; str::to_lowercase is stubbed by an ASCII length-preserving model (names are ASCII). Unit traces, more than 2 filters or 3 headers, longer names/values are outside the claim.",
        "design": "DESIGN.md §4 C13, §6",
    },
})

CLAIMS.update({
    "C12": {
        "text": "Decides at tree level that warming the cache changes no lookup result: after cache(limit, Some(level)) on a 2-pattern tree, and after a full cache followed by a further insertion into a case-insensitive tree (a split of a cached item), find() still equals the linear scan for every ASCII haystack of the bound; cached_len <= limit and the returned budget == limit - newly cached.",
        "note": "Tree level only, 2 concrete patterns, model regex engine (both LazyRegex branches - compiled and built on the fly - run over the same model, so what is decided is the repository's own caching logic). cache(limit, None), level-1 caching, Router::cache, captures and traces are outside the claim (the first two measured out of memory at 24 GB).",
        "design": "DESIGN.md §4 C12, §6",
    },
})

CLAIMS.update({
    "C02": {
        "text": "Tree half of the property only (the regex tree is one of the anchored mechanisms): after a retain that drops every value, or a removal, followed by a re-insertion into a case-insensitive tree, and after re-storing under an existing (pattern, id), the tree answers every ASCII haystack of the bound exactly like a freshly built one (independent linear-scan reference), its size equals the number of live values and the removal returns the removed value.",
        "note": "1-pattern trees only, model regex engine and Vec-backed Leaf map. Everything at router level (insert / remove / batch_remove / apply_change_set / clone through the seven matcher layers, counts, get_route_by_id) is outside the claim: the router and even its lowest layer alone were measured out of CBMC's reach (DESIGN 3.3 c01_router, c02_layers).",
        "design": "DESIGN.md §5 C02, §3.3",
    },
})

CLAIMS.update({
    "C17": {
        "text": "Leaf level of the tree half only (regex_radix_tree/trace.rs is one of the anchored files): for a 1-pattern tree and every ASCII haystack of the bound, the values reported in the matched items of trace(h) are exactly the values find(h) returns, both equal the independent linear-scan reference, and the traced item reports the number of stored values.",
        "note": "One leaf only (Leaf::trace, Item::trace, RegexTreeMap::trace), model regex engine; fields are read through cfg(kani) accessors. Node::trace on a 2-pattern tree was measured out of memory at 20 GB; every router-level trace (seven heap layers, header-condition cache, any-host fallback, final rule, action trace) is outside the claim (DESIGN 3.3).",
        "design": "DESIGN.md §5 C17, §3.3",
    },
})

TECH_PATHS = "bounded symbolic execution of the compiled Rust code, path by path (Kani 0.68 -> CBMC 6.11 --paths lifo -> CaDiCaL): kani::any() bytes after a concrete prefix, unwinding assertions, one SAT query per control-flow path (no path merging, so the tokenizer's read position stays concrete along a path); counterexamples replayed natively (Kani concrete playback)"

CLAIMS.update({
    "C16": {
        "text": "Decides for inputs `prefix ++ s` - a concrete prefix that puts the tokenizer into one of 28 of its states (data, data after a comment, bogus comment `<?` and `</ `, markup declaration `<!-` / `<!a`, comment with 0-3 trailing dashes and after `--!`, DOCTYPE partial and complete, CDATA partial / open / one or two closing brackets, double-quoted attribute value, and in fragment context: script data plain / after `<` / escape start / double-escaped / double-escaped dash / double-escaped `<`, title, style, plaintext) followed by ALL byte strings s of length 1-4 (42 registered (state, length) instances; tag open `<`, end tag open `</`, `<a/`, a single-quoted attribute value and a multi-byte character in progress with one symbolic byte) - that tokenisation never panics (all of Kani's checks on), ends within |input|+1 tokens, every non-final token consumes at least one byte, raw spans are contiguous from offset 0 and inside the buffer (raw spans + unread remainder reproduce the input), and data spans are ordered sub-ranges of the buffer that fall on char boundaries whenever the input is valid UTF-8 (so the slices text()/tag_name() take cannot panic and their from_utf8 cannot fail). The failing inputs of this family (a `--!>` right after `<!--`) are isolated byte values in a particular state, which sampling finds only by luck.",
        "note": "Bounded: 1-3 symbolic bytes after each concrete prefix; inputs that do not start with one of the prefixes are outside the claim, as are tag_attr()/token()/text() themselves (text() is covered through its slice bounds only). Path-wise symbolic execution explores infeasible paths too (CBMC does not prune them), so the cost grows with the number of comparisons per byte; the tag-name, attribute-key, unquoted / single-quoted value, end-tag and raw-text-start states and the tag_name() accessor harnesses did not finish within 25 min and are `wip`, i.e. NOT part of the claim (DESIGN 3.4). Trusted: Kani/CBMC; the branch-free UTF-8 validity predicate in the harness.",
        "design": "DESIGN.md §5 C16, §3.4",
    },
})

NOT_APPLICABLE = {
    "C02": "every observable goes through seven nested std HashMap/BTreeMap layers and the heap-allocated regex tree; measured: CBMC does not finish even a 2-pattern tree lookup (DESIGN §2, C02)",
    "C03": "pending: text-filter chain harnesses are being sized; the HTML stage (tokenizer) is out of CBMC's reach (DESIGN §2 P1/P2, C03)",
    "C04": "pending with C03; HTML buffering is out of reach (DESIGN C04)",
    "C06": "serde_json (de)serialisation is symbolic-length string formatting/parsing; with concrete inputs it would be a unit test inside CBMC, not a solver verdict (DESIGN C06)",
    "C09": "compositions of percent_encoding, url::form_urlencoded, http::uri parsers and BTreeMap<String,_> over symbolic-length strings (DESIGN C09)",
    "C10": "needs real regex captures with quantified classes, heck transformers and str::replace; the only kernel in reach (Slice) is decided under C07 (DESIGN C10)",
    "C12": "pending with the tree harnesses of C08 (DESIGN C12)",
    "C13": "pending: header filter harnesses being sized (to_lowercase stub) (DESIGN C13)",
    "C14": "flate2/brotli are table-driven loops over the whole input; not a bounded kernel (DESIGN C14)",
    "C15": "HTML tokenizer + scraper selector evaluation + HashSet of void elements: measured out of reach (DESIGN §2 P1/P2, C15)",
    "C16": "measured: a single Tokenizer::next() on 4 fixed bytes does not finish symbolic execution in 8 min (DESIGN §2 P1/P2, C16)",
    "C17": "router-level traces traverse the same HashMap/BTreeMap layers as C02 (DESIGN C17)",
    "C19": "whole-pipeline functions over serde input, http/url parsing and the HashMap-based router; no bounded kernel carries the property (DESIGN C19)",
}


def main():
    reg = tomllib.load(open(os.path.join(ROOT, "kani", "harnesses.toml"), "rb"))
    props_with_harness = set()
    for h in reg["harness"]:
        props_with_harness.add(h["property"])
        for a in h.get("also", []):
            props_with_harness.add(a)
    checks = []
    for pid in sorted(CLAIMS):
        assert pid in props_with_harness, pid
        c = CLAIMS[pid]
        checks.append({
            "property_id": pid,
            "quick_cmd": "./check %s --tier quick" % pid,
            "thorough_cmd": "./check %s --tier thorough" % pid,
            "evidence_file": "/verif/evidence/%s.json" % pid,
            "replay_cmd_template": "./check --replay {path}",
            "engine": "kani-cbmc",
            "level_claimed": {"category": "model_checking", "text": c["text"], "design_ref": c["design"]},
            "level_note": c["note"],
            "technique": TECH_PATHS if pid in ("C16",) else TECH,
        })
    hooks_commits = subprocess.check_output(
        ["git", "-C", "/repo", "log", "--format=%h %s", "--grep=^verif hooks"], text=True).strip().splitlines()
    m = {
        "version": 1,
        "setup_cmd": "./check --setup",
        "hooks": {
            "guard": "cfg(kani)",
            "enable": "set automatically by the Kani compiler (cargo kani); ordinary cargo build/test never sets it, so the hooks are compiled out",
            "baseline_off_cmd": "cd /repo && cargo test --workspace --no-fail-fast --offline",
            "source_commits": [l.split()[0] for l in hooks_commits],
            "add_only": True,
        },
        "engines": [{
            "name": "kani-cbmc", "path": "/verif/check",
            "serves_properties": sorted(CLAIMS),
            "kind_free_text": "python driver around `cargo kani` (Kani 0.68, CBMC 6.11, CaDiCaL): harness crate /verif/kani with a path dependency on /repo, registry kani/harnesses.toml, native replay of counterexamples",
        }],
        "checks": checks,
        "not_applicable": [{"property_id": k, "reason": v} for k, v in sorted(NOT_APPLICABLE.items()) if k not in CLAIMS],
        "notes": "All checks are bounded: every verdict is 'holds for every value of the symbolic inputs inside the stated bound' (see evidence samples: functions encoded, bounds, unwind, stubs, obligations, solver time). Exit 2 = inconclusive (build failure, timeout, vacuity, unconfirmed counterexample), never reported as success. known_findings.json lists repaired defects (fix: commits in /repo).",
    }
    json.dump(m, open(os.path.join(ROOT, "MANIFEST.json"), "w"), indent=1)
    print("MANIFEST.json: %d checks, %d not applicable" % (len(checks), len(m["not_applicable"])))


if __name__ == "__main__":
    main()
