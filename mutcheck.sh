#!/bin/bash
# usage: mutcheck.sh <seed-id e.g. C13-m1> <check args...>   applies the seeded patch to /repo, runs ./check, reverts.
seed=$1; shift
cd /repo && git status --short | grep -q . && { echo "repo dirty, abort"; exit 9; }
git -C /repo apply /verif/seeded/$seed/patch.diff || { echo "patch failed"; exit 9; }
cd /verif && ./check "$@" --no-evidence; rc=$?
git -C /repo checkout -- .
echo "MUTCHECK seed=$seed args=$* rc=$rc"
exit $rc
