#!/bin/bash
# usage: seed_confirm.sh <property> <k> <src_dir(with patch.diff, demo.rs, notes.md)> <worktree>
# Confirms a seeded mutation in a scratch worktree: (1) suite passes with it, (2) demo fails with it, (3) demo passes without.
# Writes /verif/seeded/<property>-m<k>/{patch.diff,demo.rs,notes.md,meta.json}
set -u
P=$1; K=$2; SRC=$3; WT=$4
OUT=/verif/seeded/$P-m$K
mkdir -p $OUT
cp $SRC/patch.diff $SRC/demo.rs $OUT/ 2>/dev/null
cp $SRC/notes.md $OUT/notes.md 2>/dev/null
cd $WT || exit 2
export CARGO_NET_OFFLINE=true
git checkout -q -- . ; rm -f tests/seed_demo_verif.rs
cp $OUT/demo.rs tests/seed_demo_verif.rs
# without mutation
cargo test --offline --test seed_demo_verif > $OUT/.demo_clean.log 2>&1; demo_clean=$?
git apply $OUT/patch.diff || { echo "patch does not apply" > $OUT/.err; exit 2; }
cargo test --offline --test seed_demo_verif > $OUT/.demo_mut.log 2>&1; demo_mut=$?
rm -f tests/seed_demo_verif.rs
cargo test --workspace --offline --no-fail-fast > $OUT/.suite_mut.log 2>&1; suite_mut=$?
passed=$(grep -E "^test result" $OUT/.suite_mut.log | awk '{s+=$4} END {print s}')
failed=$(grep -E "^test result" $OUT/.suite_mut.log | awk '{s+=$6} END {print s}')
git checkout -q -- . ; git status --short | head -3
python3 - "$P" "$K" "$OUT" "$demo_clean" "$demo_mut" "$suite_mut" "$passed" "$failed" <<'PY'
import json,sys,os,subprocess
P,K,OUT,dc,dm,sm,passed,failed=sys.argv[1:]
files=subprocess.run("grep '^+++ b/' %s/patch.diff | sed 's#+++ b/##'"%OUT,shell=True,capture_output=True,text=True).stdout.split()
meta={"property":P,"mutation":int(K),"files_changed":files,
 "confirmed":{"demo_passes_without_mutation":dc=="0","demo_fails_with_mutation":dm!="0","existing_suite_passes_with_mutation":sm=="0","suite_passed":int(passed or 0),"suite_failed":int(failed or 0)},
 "ran":["cargo test --offline --test seed_demo_verif (clean tree)","git apply patch.diff","cargo test --offline --test seed_demo_verif (mutated)","cargo test --workspace --offline --no-fail-fast (mutated)"],
 "needs_to_manifest":"see notes.md (written by the independent sub-agent that produced the change)","kept":dc=="0" and dm!="0" and sm=="0"}
json.dump(meta,open(OUT+"/meta.json","w"),indent=1)
print(P,K,meta["confirmed"],"KEPT" if meta["kept"] else "REJECTED")
PY
rm -f $OUT/.demo_clean.log $OUT/.demo_mut.log $OUT/.suite_mut.log
