//! Exhaustive differential validation of the Kani-only models against the real engines.
#![allow(dead_code)]
#[path = "/repo/src/verif_shim/regex_model.rs"]
mod regex_model;
#[path = "/repo/src/verif_shim/map.rs"]
mod map;
#[path = "/repo/src/verif_shim/ordered_set.rs"]
mod ordered_set;

use std::collections::HashMap as StdMap;

fn all_strings(alpha: &[u8], max_len: usize) -> Vec<String> {
    let mut out = vec![String::new()];
    let mut frontier = vec![String::new()];
    for _ in 0..max_len {
        let mut next = Vec::new();
        for s in &frontier {
            for &c in alpha {
                let mut t = s.clone();
                t.push(c as char);
                next.push(t);
            }
        }
        out.extend(next.iter().cloned());
        frontier = next;
    }
    out
}

/// 1. regex model vs regex crate: every pattern over the pattern alphabet up to length PL that the
/// model accepts must (a) compile in the real engine and (b) agree on is_match for every haystack
/// over the haystack alphabet up to length HL, for the three wrappers LazyRegex builds
/// ("^p", "^p$", ".*"), both case modes.  Patterns the model rejects for being unbalanced / having a
/// dangling backslash must be rejected by the real engine too.
fn check_regex() -> (usize, usize) {
    let palpha = [b'a', b'B', b'(', b')', b'\\', b'.', b'?', b':'];
    let halpha = [b'a', b'A', b'b', b'B', b'(', b'.', b'\n'];
    let pats = all_strings(&palpha, 5);
    let hays = all_strings(&halpha, 4);
    let mut compared = 0usize;
    let mut accepted = 0usize;
    for p in &pats {
        for wrap in 0..2 {
            let full = if wrap == 0 { format!("^{}", p) } else { format!("^{}$", p) };
            for ci in [false, true] {
                let m = regex_model::RegexBuilder::new(&full).case_insensitive(ci).build();
                let r = regex::RegexBuilder::new(&full).case_insensitive(ci).build();
                match (&m, &r) {
                    (Ok(m), Ok(r)) => {
                        accepted += 1;
                        for h in &hays {
                            compared += 1;
                            assert_eq!(m.is_match(h), r.is_match(h), "pattern {:?} ci={} haystack {:?}", full, ci, h);
                        }
                    }
                    (Ok(_), Err(e)) => panic!("model accepts {:?} but the engine rejects it: {}", full, e),
                    (Err(_), Ok(_)) => {
                        // outside the model class (quantifier etc.): allowed, but an unbalanced pattern or a
                        // dangling backslash must never be accepted by the engine
                        let bytes = full.as_bytes();
                        let mut depth = 0i32;
                        let mut i = 0;
                        let mut bad = false;
                        while i < bytes.len() {
                            if bytes[i] == b'\\' {
                                if i + 1 >= bytes.len() {
                                    bad = true;
                                }
                                i += 2;
                                continue;
                            }
                            if bytes[i] == b'(' {
                                depth += 1;
                            }
                            if bytes[i] == b')' {
                                depth -= 1;
                                if depth < 0 {
                                    bad = true;
                                }
                            }
                            i += 1;
                        }
                        assert!(!(bad || depth != 0), "engine accepts structurally broken {:?}", full);
                    }
                    (Err(_), Err(_)) => {}
                }
            }
        }
    }
    // the ".*" node pattern and its anchored form
    for pat in [".*", "^.*$"] {
        let m = regex_model::RegexBuilder::new(pat).build().ok().unwrap();
        let r = regex::Regex::new(pat).unwrap();
        for h in &hays {
            assert_eq!(m.is_match(h), r.is_match(h), "pattern {:?} haystack {:?}", pat, h);
            compared += 1;
        }
    }
    (accepted, compared)
}

/// 2. Vec-backed map vs std HashMap over all op sequences of length <= 5 on a 3-key universe.
fn check_map() -> usize {
    // ops: 0..3 insert(k, step) ; 3..6 remove(k) ; 6 retain(v odd)
    let mut n = 0usize;
    let mut seq = vec![0u8; 5];
    loop {
        let mut a: map::HashMap<String, u32> = map::HashMap::new();
        let mut b: StdMap<String, u32> = StdMap::new();
        for (step, &op) in seq.iter().enumerate() {
            let key = |k: u8| ["x", "y", "z"][k as usize].to_string();
            match op {
                0..=2 => assert_eq!(a.insert(key(op), step as u32), b.insert(key(op), step as u32)),
                3..=5 => assert_eq!(a.remove(key(op - 3).as_str()), b.remove(key(op - 3).as_str())),
                _ => {
                    a.retain(|_, v| *v % 2 == 1);
                    b.retain(|_, v| *v % 2 == 1);
                }
            }
            assert_eq!(a.len(), b.len());
            assert_eq!(a.is_empty(), b.is_empty());
            for k in ["x", "y", "z"] {
                assert_eq!(a.get(k), b.get(k));
                assert_eq!(a.contains_key(k), b.contains_key(k));
            }
            let mut va: Vec<u32> = a.values().cloned().collect();
            let mut vb: Vec<u32> = b.values().cloned().collect();
            va.sort();
            vb.sort();
            assert_eq!(va, vb);
            n += 1;
        }
        // next sequence
        let mut i = 0;
        loop {
            if i == seq.len() {
                return n;
            }
            seq[i] += 1;
            if seq[i] < 7 {
                break;
            }
            seq[i] = 0;
            i += 1;
        }
    }
}

/// 3. ordered set vs linked_hash_set over all insert sequences of length <= 6 on a 3-element universe
/// (iteration order, contains, len, insert return value).
fn check_ordered_set() -> usize {
    let mut n = 0usize;
    let mut seq = vec![0u8; 6];
    loop {
        let mut a: ordered_set::LinkedHashSet<String> = ordered_set::LinkedHashSet::new();
        let mut b: linked_hash_set::LinkedHashSet<String> = linked_hash_set::LinkedHashSet::new();
        for &e in &seq {
            let v = ["p", "q", "r"][e as usize].to_string();
            assert_eq!(a.insert(v.clone()), b.insert(v));
            assert_eq!(a.len(), b.len());
            let va: Vec<&String> = a.iter().collect();
            let vb: Vec<&String> = b.iter().collect();
            assert_eq!(va, vb);
            for k in ["p", "q", "r"] {
                assert_eq!(a.contains(k), b.contains(k));
            }
            n += 1;
        }
        let mut i = 0;
        loop {
            if i == seq.len() {
                return n;
            }
            seq[i] += 1;
            if seq[i] < 3 {
                break;
            }
            seq[i] = 0;
            i += 1;
        }
    }
}

fn main() {
    let (acc, cmp) = check_regex();
    println!("regex model: {} accepted pattern instances, {} (pattern, haystack) comparisons agree with the regex crate", acc, cmp);
    let m = check_map();
    println!("map shim: {} states agree with std HashMap", m);
    let s = check_ordered_set();
    println!("ordered set shim: {} states agree with linked_hash_set", s);
    println!("MODELS-OK");
}
