#!/bin/bash
# usage: kbg.sh <harness-fq-name> <timeout_s> [extra cargo-kani flags...]   (background probe runner; log in /verif/logs/probe-<short>.log)
h=$1; to=$2; shift 2
short=${h##*::}
cd /verif/kani
( ulimit -v 16000000; export PUBLISH_SKIP_BUILD=1 CARGO_NET_OFFLINE=true; s=$(date +%s); timeout $to cargo kani --target-dir /verif/.target/kani -Z stubbing --harness $h --exact "$@" > /verif/logs/probe-$short.log 2>&1; echo "EXIT $? WALL $(( $(date +%s) - s ))s" >> /verif/logs/probe-$short.log ) > /dev/null 2>&1 &
