#!/bin/bash
# usage: runmenu.sh <features> <timeout_s> <parallel> <extra args...> < harness-names   (probe runner; logs in /verif/logs/menu-<short>.log)
feats=$1; to=$2; par=$3; shift 3
export CARGO_NET_OFFLINE=true
cd /verif/kani
run1() { h=$1; shift; short=${h##*::}; s=$(date +%s); ( ulimit -v 12000000; timeout $TO cargo kani --target-dir /verif/.target/kani-probe -Z stubbing -Z unstable-options --features $FEATS --harness $h --exact "$@" > /verif/logs/menu-$short.log 2>&1 ); rc=$?; echo "$short rc=$rc wall=$(( $(date +%s) - s ))s $(grep -c 'size of program' /verif/logs/menu-$short.log) paths $(grep -o 'VERIFICATION:- [A-Z]*' /verif/logs/menu-$short.log)" >> /verif/logs/menu-summary.txt; }
export -f run1; export TO=$to FEATS=$feats
xargs -P $par -I{} bash -c 'run1 {} "$@"' _ "$@"
