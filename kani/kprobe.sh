#!/bin/bash
# usage: kprobe.sh <tag> <features> <harness> <timeout_s> <mem_kb> [cargo-kani flags...]  ; background probe, log in /verif/logs/probe-<tag>.log
tag=$1; feats=$2; h=$3; to=$4; mem=$5; shift 5
cd /verif/kani
( ulimit -v $mem; export CARGO_NET_OFFLINE=true; s=$(date +%s); timeout $to cargo kani --target-dir ${KTD:-/verif/.target/kani-probe} -Z stubbing -Z unstable-options --features $feats --harness $h --exact "$@" > /verif/logs/probe-$tag.log 2>&1; echo "EXIT $? WALL $(( $(date +%s) - s ))s" >> /verif/logs/probe-$tag.log ) > /dev/null 2>&1 &
