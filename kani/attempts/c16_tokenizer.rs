//! C16 (part): the HTML tokenizer on ALL byte strings of a small fixed length: never panics
//! (Kani's built-in checks stay on), terminates within |b|+1 tokens, every non-final token
//! consumes at least one byte, and the raw spans of the tokens are contiguous from offset 0 and stay
//! inside the buffer (so raw spans + unread remainder reproduce the input exactly).
//! Spans are read through a cfg(kani) accessor (Tokenizer::raw() copies a slice of symbolic length).
use redirectionio::html::{TokenType, Tokenizer};

fn input<const N: usize>() -> Vec<u8> {
    let b: [u8; N] = kani::any();
    let mut v = Vec::with_capacity(N);
    let mut i = 0;
    while i < N {
        v.push(b[i]);
        i += 1;
    }
    v
}

fn drive<const N: usize>(mut t: Tokenizer) {
    // attribute collection off (see the hook in /repo/src/html/mod.rs): no attribute fits in the bound
    redirectionio::html::VERIF_SAVE_ATTRIBUTES.store(false, std::sync::atomic::Ordering::Relaxed);
    let mut prev_end = 0usize;
    let mut finished = false;
    let mut k = 0;
    while k <= N {
        let r = t.next();
        let (rs, re, ds, de) = t.verif_spans();
        assert!(rs == prev_end);
        assert!(rs <= re && re <= N);
        assert!(ds <= de && de <= N);
        match r {
            Ok(TokenType::ErrorToken) => {
                finished = true;
                // the unread remainder starts where the last token ended
                assert!(re <= N);
                break;
            }
            Ok(_) => {
                // progress: at most one token per input byte
                assert!(re > rs);
            }
            Err(_) => {
                finished = true;
                break;
            }
        }
        prev_end = re;
        k += 1;
    }
    assert!(finished);
    kani::cover!(prev_end == N);
    kani::cover!(prev_end == 0);
    std::mem::forget(t);
}

#[kani::proof]
#[kani::unwind(6)]
fn c16_tokenizer_document_3() {
    drive::<3>(Tokenizer::new(input::<3>()));
}

#[kani::proof]
#[kani::unwind(7)]
fn c16_tokenizer_document_4() {
    drive::<4>(Tokenizer::new(input::<4>()));
}

#[kani::proof]
#[kani::unwind(8)]
fn c16_tokenizer_script_3() {
    drive::<3>(Tokenizer::new_fragment(input::<3>(), String::from("script")));
}

#[kani::proof]
#[kani::unwind(8)]
fn c16_tokenizer_title_4() {
    drive::<4>(Tokenizer::new_fragment(input::<4>(), String::from("title")));
}
