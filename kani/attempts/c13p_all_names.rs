//! Attempt (not compiled): C13 with header / filter names arbitrary over {a, A, b, B} under path-wise symbolic
//! execution.  Appended to c13_headers.rs, with s1() built through Vec<u8> instead of String::push(char).
//! Result: > 790 paths in 13 min for ONE operation on two headers (64 name configurations), unfinished:
//! names written to a heap String are not constant-propagated when read back (DESIGN 3.4).

// ---------------------------------------------------------------------------------------------
// Path-wise symbolic execution (`--paths lifo`): ALL name configurations over the alphabet
// {a, A, b, B} in one harness.  Every header name and filter name is an arbitrary member of the
// alphabet, case-split in the harness so that it is a constant on each path (names decide the length
// of every result Vec; with path merging symbolic names ran out of memory at 16 GB).  Values stay
// symbolic.  One SAT query per name configuration, 4^(M+K) configurations per harness.
fn pick_name() -> u8 {
    let x: u8 = kani::any();
    if x == 0 {
        return b'a';
    }
    if x == 1 {
        return b'A';
    }
    if x == 2 {
        return b'b';
    }
    b'B'
}

fn check_all_names<const M: usize, const K: usize>(acts: [u8; K]) {
    let mut hn = [0u8; M];
    let mut i = 0;
    while i < M {
        hn[i] = pick_name();
        i += 1;
    }
    let mut fnm = [0u8; K];
    let mut k = 0;
    while k < K {
        fnm[k] = pick_name();
        k += 1;
    }
    check_cfg::<M, K>(acts, hn, fnm);
}

macro_rules! hdrp {
    ($name:ident, $m:expr, $k:expr, $acts:expr) => {
        #[kani::proof]
        #[kani::unwind(10)]
        #[kani::stub(str::to_lowercase, ascii_lowercase_model)]
        fn $name() {
            check_all_names::<$m, $k>($acts);
            kani::cover!(true);
        }
    };
}

hdrp!(c13p_remove_m2_all_names, 2, 1, [1]);
hdrp!(c13p_override_m2_all_names, 2, 1, [3]);
hdrp!(c13p_default_m2_all_names, 2, 1, [4]);
hdrp!(c13p_replace_m3_all_names, 3, 1, [2]);
hdrp!(c13p_override_remove_m2_all_names, 2, 2, [3, 1]);
hdrp!(c13p_add_default_m2_all_names, 2, 2, [0, 4]);
hdrp!(c13p_replace_override_m2_all_names, 2, 2, [2, 3]);
hdrp!(c13p_remove_add_m2_all_names, 2, 2, [1, 0]);
