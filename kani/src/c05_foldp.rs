//! C05 / C11: the REAL `Action::from_routes_rule` (sort + `from_route_rule` + reset / stop / merge loop,
//! nothing stubbed but `mem::swap` and the unreachable `Arc::drop_slow`) followed by the real use-time
//! API, against a BRANCH-FREE reference fold.  Decided with CBMC's path-wise symbolic execution
//! (`--paths lifo`): every control-flow path of the real code is its own SAT query, so reset / stop
//! flags, ranks and rule shapes can be symbolic (with path merging the heap states of the fold did not
//! fit in 23 GB, see c05_fold).  The reference is written without branches (`&`, `|`, masks) so that it
//! adds no path of its own.
use crate::util::*;
use redirectionio::action::Action;
use redirectionio::api::Rule;
use redirectionio::marker::StaticOrDynamic;
use redirectionio::router::Route;
use std::sync::Arc;

#[derive(Clone, Copy)]
pub struct R {
    pub id: u8, // one ASCII byte
    pub rank: u16,
    pub has_status: bool,
    pub status: u16, // rule.status_code (0 = none, like a missing one)
    pub cond: bool,  // has a response-code list (one listed code)
    pub code: u16,
    pub exclude: bool,
    pub reset: bool,
    pub stop: bool,
    pub has_log: bool,
    pub log: bool,
    pub sampling: Option<u32>,
}

fn route(r: &R) -> Arc<Route<Rule>> {
    let mut src = empty_source();
    src.response_status_codes = if r.cond { Some(vec![r.code]) } else { None };
    src.exclude_response_status_codes = if r.exclude { Some(true) } else { None };
    src.sampling = r.sampling;
    let rule = Rule {
        id: s1(r.id),
        source: src,
        target: None,
        status_code: if r.has_status { Some(r.status) } else { None },
        rank: r.rank,
        markers: Vec::new(),
        variables: Vec::new(),
        body_filters: None,
        header_filters: None,
        log_override: if r.has_log { Some(r.log) } else { None },
        reset: if r.reset { Some(true) } else { None },
        stop: if r.stop { Some(true) } else { None },
        examples: None,
        redirect_unit_id: None,
        configuration_log_unit_id: None,
        configuration_reset_unit_id: None,
        target_hash: None,
    };
    Arc::new(Route::new(
        None,
        None,
        None,
        None,
        StaticOrDynamic::Static(String::from("/")),
        Vec::new(),
        None,
        None,
        None,
        None,
        s1(r.id),
        0 - r.rank as i64,
        rule,
    ))
}

// ---- branch-free selects
fn m16(c: bool) -> u16 {
    0u16.wrapping_sub(c as u16)
}
fn sel16(c: bool, a: u16, b: u16) -> u16 {
    (m16(c) & a) | (!m16(c) & b)
}
fn sel8(c: bool, a: u8, b: u8) -> u8 {
    let m = 0u8.wrapping_sub(c as u8);
    (m & a) | (!m & b)
}
fn selb(c: bool, a: bool, b: bool) -> bool {
    (c & a) | (!c & b)
}
fn selr(c: bool, a: &R, b: &R) -> R {
    R {
        id: sel8(c, a.id, b.id),
        rank: sel16(c, a.rank, b.rank),
        has_status: selb(c, a.has_status, b.has_status),
        status: sel16(c, a.status, b.status),
        cond: selb(c, a.cond, b.cond),
        code: sel16(c, a.code, b.code),
        exclude: selb(c, a.exclude, b.exclude),
        reset: selb(c, a.reset, b.reset),
        stop: selb(c, a.stop, b.stop),
        has_log: selb(c, a.has_log, b.has_log),
        log: selb(c, a.log, b.log),
        sampling: None,
    }
}

/// Reference (branch-free).  Rules applied by (rank desc, id desc); a rule with `skip` contributes
/// nothing (sampled out); reset replaces everything accumulated so far, stop ends the fold; a new status
/// (log override) replaces the old one, except that an old *unconditional* one stays as fallback of a new
/// *conditional* one.  Returns (status for response code c, id credited for it or 0, log decision).
pub fn reference<const N: usize>(rs: &[R; N], skip: &[bool; N], c: u16, allow_log: bool) -> (u16, u8, bool, u8) {
    // position of rule i in the order = number of rules that come before it
    let mut pos = [0u8; N];
    let mut i = 0;
    while i < N {
        let mut j = 0;
        while j < N {
            let before = (rs[j].rank > rs[i].rank) | ((rs[j].rank == rs[i].rank) & (rs[j].id > rs[i].id));
            pos[i] += before as u8;
            j += 1;
        }
        i += 1;
    }
    let (mut st_p, mut st_status, mut st_id, mut st_cond, mut st_code, mut st_excl) = (false, 0u16, 0u8, false, 0u16, false);
    let (mut fb_status, mut fb_id) = (0u16, 0u8);
    let (mut lg_p, mut lg_log, mut lg_cond, mut lg_code, mut lg_excl) = (false, false, false, 0u16, false);
    let (mut lfb_p, mut lfb) = (false, false);
    let (mut lg_id, mut lfb_id) = (0u8, 0u8);
    let mut stopped = false;
    let mut k = 0;
    while k < N {
        // the rule at position k
        let mut r = rs[0];
        let mut sk = skip[0];
        let mut i = 1;
        while i < N {
            let here = pos[i] == k as u8;
            r = selr(here, &rs[i], &r);
            sk = selb(here, skip[i], sk);
            i += 1;
        }
        let apply = !stopped & !sk;
        let clear = apply & r.reset;
        st_p = st_p & !clear;
        lg_p = lg_p & !clear;
        // status
        let has = apply & r.has_status & (r.status != 0);
        let keep_fb = st_p & !st_cond & r.cond;
        fb_status = sel16(has, sel16(keep_fb, st_status, 0), fb_status);
        fb_id = sel8(has, sel8(keep_fb, st_id, 0), fb_id);
        st_status = sel16(has, r.status, st_status);
        st_id = sel8(has, r.id, st_id);
        st_cond = selb(has, r.cond, st_cond);
        st_code = sel16(has, r.code, st_code);
        st_excl = selb(has, r.exclude, st_excl);
        st_p = st_p | has;
        // log override
        let hl = apply & r.has_log;
        let keep_lfb = lg_p & !lg_cond & r.cond;
        lfb_p = selb(hl, keep_lfb, lfb_p);
        lfb = selb(hl, lg_log, lfb);
        lfb_id = sel8(hl, sel8(keep_lfb, lg_id, 0), lfb_id);
        lg_id = sel8(hl, r.id, lg_id);
        lg_log = selb(hl, r.log, lg_log);
        lg_cond = selb(hl, r.cond, lg_cond);
        lg_code = sel16(hl, r.code, lg_code);
        lg_excl = selb(hl, r.exclude, lg_excl);
        lg_p = lg_p | hl;
        stopped = stopped | (apply & r.stop);
        k += 1;
    }
    // use time.  admitted <=> (no list and (c == 0 or exclude)) or (list and (c in list) != exclude)
    let st_adm = (!st_cond & ((c == 0) | st_excl)) | (st_cond & ((st_code == c) != st_excl));
    let status = sel16(st_p, sel16(st_adm, st_status, sel16(c != 0, fb_status, 0)), 0);
    let sid = sel8(st_p, sel8(st_adm, st_id, sel8(c != 0, fb_id, 0)), 0);
    // log override: admitted <=> no list, or (c in list) != exclude
    let lg_adm = !lg_cond | ((lg_code == c) != lg_excl);
    let log = selb(lg_p, selb(lg_adm, lg_log, selb(lfb_p, lfb, allow_log)), allow_log);
    let lid = sel8(lg_p, sel8(lg_adm, lg_id, lfb_id), 0);
    (status, sid, log, lid)
}

fn sym_rule(id: u8, shape: u8) -> R {
    // shape bits: 1 = has status, 2 = has a response-code list, 4 = has a log override,
    //             8 = reset symbolic (else false), 16 = stop symbolic (else false), 32 = reset true, 64 = stop true
    // status codes and listed codes are opaque data the fold only copies: concrete and distinct per
    // rule (301.., 401..), so that the result attributes the rule; ranks, flags, the response code and
    // the log decisions are symbolic.  (Symbolic statuses double the paths per rule at `match status { 0 => ..`.)
    let cond = shape & 2 != 0;
    let k = (id - b'a') as u16 + 1;
    R {
        id,
        rank: kani::any(),
        has_status: shape & 1 != 0,
        status: 300 + k,
        cond,
        code: 400 + k,
        exclude: if cond { kani::any() } else { false },
        reset: if shape & 8 != 0 { kani::any() } else { shape & 32 != 0 },
        stop: if shape & 16 != 0 { kani::any() } else { shape & 64 != 0 },
        has_log: shape & 4 != 0,
        log: kani::any(),
        sampling: None,
    }
}

fn check<const N: usize>(rs: &[R; N], skip: &[bool; N], routes: Vec<Arc<Route<Rule>>>, req: &redirectionio::http::Request, c: u16) {
    let allow_log: bool = kani::any();
    let mut action = Action::from_routes_rule(routes, req, None);
    let status = action.get_status_code(c, None);
    let log = action.should_log_request(allow_log, c, None);
    let (want_status, want_id, want_log, want_log_id) = reference(rs, skip, c, allow_log);
    assert!(status == want_status);
    assert!(log == want_log);
    // the rules credited for the status code and for the log decision are reported as applied, and
    // nothing else is
    let applied = action.get_applied_rule_ids();
    let mut found = false;
    let mut found_log = false;
    let mut others = false;
    for id in applied.iter() {
        let b = id.as_bytes()[0];
        found = found | (b == want_id);
        found_log = found_log | (b == want_log_id);
        others = others | ((b != want_id) & (b != want_log_id));
    }
    assert!((want_id == 0) | found);
    assert!((want_log_id == 0) | found_log);
    assert!(!others);
    kani::cover!(status != 0 && want_id != 0);
    std::mem::forget(action);
}

fn fold2<const S0: u8, const S1: u8, const SWAP: bool>() {
    let rs = [sym_rule(b'a', S0), sym_rule(b'b', S1)];
    let (r0, r1) = (route(&rs[0]), route(&rs[1]));
    // the router keeps its own references to the matched routes
    std::mem::forget(r0.clone());
    std::mem::forget(r1.clone());
    let routes = if SWAP { vec![r1, r0] } else { vec![r0, r1] };
    let req = request_with(Vec::new());
    check(&rs, &[false, false], routes, &req, kani::any());
    std::mem::forget(req);
}

fn fold3<const S0: u8, const S1: u8, const S2: u8, const PERM: u8>() {
    let rs = [sym_rule(b'a', S0), sym_rule(b'b', S1), sym_rule(b'c', S2)];
    let (r0, r1, r2) = (route(&rs[0]), route(&rs[1]), route(&rs[2]));
    std::mem::forget(r0.clone());
    std::mem::forget(r1.clone());
    std::mem::forget(r2.clone());
    // the order in which the matched routes are handed over must not matter (C11)
    let routes = match PERM {
        0 => vec![r0, r1, r2],
        1 => vec![r2, r0, r1],
        _ => vec![r1, r2, r0],
    };
    let req = request_with(Vec::new());
    check(&rs, &[false, false, false], routes, &req, kani::any());
    std::mem::forget(req);
}

macro_rules! fold2p {
    ($name:ident, $s0:expr, $s1:expr, $swap:expr) => {
        #[kani::proof]
        #[kani::unwind(6)]
        #[kani::stub(std::mem::swap, typed_swap)]
        #[kani::stub(std::sync::Arc::drop_slow, arc_drop_slow_unreachable)]
        fn $name() {
            fold2::<$s0, $s1, $swap>();
        }
    };
}
macro_rules! fold3p {
    ($name:ident, $s0:expr, $s1:expr, $s2:expr, $perm:expr) => {
        #[kani::proof]
        #[kani::unwind(6)]
        #[kani::stub(std::mem::swap, typed_swap)]
        #[kani::stub(std::sync::Arc::drop_slow, arc_drop_slow_unreachable)]
        fn $name() {
            fold3::<$s0, $s1, $s2, $perm>();
        }
    };
}

// two rules; status on both, symbolic reset on the second-listed, symbolic stop on the first-listed
fold2p!(c05p_fold2_status_reset_stop, 17, 11, false);
// both conditional / unconditional mixes, all flags symbolic on both
fold2p!(c05p_fold2_uncond_cond_all_flags, 25, 27, true);
fold2p!(c05p_fold2_cond_cond_all_flags, 27, 27, false);
// log overrides with flags
fold2p!(c05p_fold2_log_all_flags, 28, 30, false);
fold2p!(c05p_fold2_status_and_log, 5, 31, true);
// concrete flags, symbolic ranks (both application orders), response code, exclude, log decisions
fold2p!(c05p_fold2_reset_and_stop_rule, 97, 1, false);
fold2p!(c05p_fold2_reset_and_stop_rule_cond, 99, 3, true);
fold2p!(c05p_fold2_stop_rule, 65, 3, false);
fold2p!(c05p_fold2_reset_rule, 33, 3, true);
fold2p!(c05p_fold2_plain_uncond_cond, 1, 3, false);
fold2p!(c05p_fold2_plain_log, 4, 6, true);
// three rules
fold3p!(c05p_fold3_status_flags_mid, 1, 27, 3, 0);
fold3p!(c05p_fold3_status_flags_mid_perm, 1, 27, 3, 1);
fold3p!(c05p_fold3_reset_stop_spread, 9, 3, 17, 2);

/// Sampling (real from_route_rule, one rule): the rule is skipped iff it is sampled and either the
/// request forces it off, or the request does not force it and the draw exceeds the clamped rate.
#[kani::proof]
#[kani::unwind(6)]
#[kani::stub(std::mem::swap, typed_swap)]
#[kani::stub(std::sync::Arc::drop_slow, arc_drop_slow_unreachable)]
fn c05p_sampling_one_rule() {
    let mut r = sym_rule(b'a', 1);
    let rate: u32 = kani::any();
    let sampled: bool = kani::any();
    r.sampling = if sampled { Some(rate) } else { None };
    let draw: u32 = kani::any();
    redirectionio::verif_shim::VERIF_RANDOM_U32.store(draw, std::sync::atomic::Ordering::Relaxed);
    let mut req = request_with(Vec::new());
    let ov: u8 = kani::any();
    req.sampling_override = match ov {
        0 => None,
        1 => Some(false),
        _ => Some(true),
    };
    let rt = route(&r);
    std::mem::forget(rt.clone());
    let clamped = if rate > 100 { 100 } else { rate };
    let over = (draw % 100) + 1 > clamped;
    let skip = sampled & ((ov == 1) | ((ov == 0) & over));
    // before any backend response (c = 0): the unconditional status shows iff the rule was not skipped
    check(&[r], &[skip], vec![rt], &req, 0);
    kani::cover!(skip);
    kani::cover!(sampled && !skip && rate >= 100);
    std::mem::forget(req);
}
