//! C05 harness C: the real Action::merge (status-code and log-override merging, "an unconditional
//! rule only stays as fallback of a conditional one") followed by the real use-time guards
//! Action::{get_status_code, should_log_request}, against a reference, for all status codes, listed
//! codes, exclude flags, log flags and response codes.  The two actions are built through a
//! cfg(kani) constructor hook (fields are private); list SHAPES (unconditional / one listed code)
//! are concrete per harness.
use crate::util::*;
use redirectionio::action::{Action, StatusCodeUpdate, VerifLogOverride as LogOverride};

#[derive(Clone, Copy)]
struct P {
    id: u8,
    status: u16,
    has_status: bool,
    code: Option<u16>,
    exclude: bool,
    log: bool,
    has_log: bool,
}

fn codes(p: &P) -> Vec<u16> {
    match p.code {
        None => Vec::new(),
        Some(c) => vec![c],
    }
}

fn action_of(p: &P) -> Action {
    let status = if p.has_status {
        Some(StatusCodeUpdate {
            status_code: p.status,
            on_response_status_codes: codes(p),
            exclude_response_status_codes: p.exclude,
            fallback_status_code: 0,
            rule_id: Some(s1(p.id)),
            fallback_rule_id: None,
            unit_id: None,
            target_hash: None,
        })
    } else {
        None
    };
    let log = if p.has_log {
        Some(LogOverride {
            log_override: p.log,
            rule_id: Some(s1(p.id)),
            on_response_status_codes: codes(p),
            exclude_response_status_codes: p.exclude,
            fallback_log_override: None,
            fallback_rule_id: None,
            unit_id: None,
        })
    } else {
        None
    };
    Action::verif_from_parts(status, log, Vec::new(), Vec::new())
}

fn sym(id: u8, has_status: bool, has_code: bool, has_log: bool) -> P {
    let code: u16 = kani::any();
    P {
        id,
        status: kani::any(),
        has_status,
        code: if has_code { Some(code) } else { None },
        exclude: if has_code { kani::any() } else { false },
        log: kani::any(),
        has_log,
    }
}

fn admits(code: Option<u16>, exclude: bool, c: u16, uncond_at_request_time: bool) -> bool {
    match code {
        None => !uncond_at_request_time || c == 0,
        Some(l) => (l == c) != exclude,
    }
}

/// shape bits: 1 = status, 2 = listed code, 4 = log
fn merge2<const S_OLD: u8, const S_NEW: u8>() {
    let old = sym(b'o', S_OLD & 1 != 0, S_OLD & 2 != 0, S_OLD & 4 != 0);
    let new = sym(b'n', S_NEW & 1 != 0, S_NEW & 2 != 0, S_NEW & 4 != 0);
    let mut a = action_of(&old);
    a.merge(action_of(&new));
    let c: u16 = kani::any();
    let allow_log: bool = kani::any();
    let got_status = a.get_status_code(c, None);
    let got_log = a.should_log_request(allow_log, c, None);

    // reference: the new rule's status replaces the old one, except that an old unconditional status
    // stays as fallback of a new conditional one
    let (want_status, want_id): (u16, u8) = if new.has_status {
        if admits(new.code, new.exclude, c, true) {
            (new.status, new.id)
        } else if c != 0 && old.has_status && old.code.is_none() && new.code.is_some() {
            (old.status, old.id)
        } else {
            (0, 0)
        }
    } else if old.has_status {
        if admits(old.code, old.exclude, c, true) {
            (old.status, old.id)
        } else {
            (0, 0)
        }
    } else {
        (0, 0)
    };
    assert!(got_status == want_status);
    let want_log = if new.has_log {
        if admits(new.code, new.exclude, c, false) {
            new.log
        } else if old.has_log && old.code.is_none() && new.code.is_some() {
            old.log
        } else {
            allow_log
        }
    } else if old.has_log {
        if admits(old.code, old.exclude, c, false) {
            old.log
        } else {
            allow_log
        }
    } else {
        allow_log
    };
    assert!(got_log == want_log);
    // the credited rule is reported as applied
    if want_id != 0 && want_status != 0 {
        let mut found = false;
        for id in a.get_applied_rule_ids().iter() {
            if id.as_bytes()[0] == want_id {
                found = true;
            }
        }
        assert!(found);
    }
    kani::cover!(got_log != allow_log || got_status != 0);
    kani::cover!(got_status == 0);
    std::mem::forget(a);
}

/// Three actions merged left to right: unconditional, conditional, conditional.  The second
/// conditional rule replaces the first one entirely (including the fallback it had inherited).
#[kani::proof]
#[kani::unwind(5)]
fn c05_merge3_uncond_cond_cond() {
    let a0 = sym(b'o', true, false, false);
    let a1 = sym(b'm', true, true, false);
    let a2 = sym(b'n', true, true, false);
    let mut a = action_of(&a0);
    a.merge(action_of(&a1));
    a.merge(action_of(&a2));
    let c: u16 = kani::any();
    let got = a.get_status_code(c, None);
    let want = if admits(a2.code, a2.exclude, c, true) { a2.status } else { 0 };
    assert!(got == want);
    kani::cover!(got != 0 && c != 0);
    kani::cover!(got == 0 && c != 0);
    std::mem::forget(a);
}

macro_rules! merge_harness {
    ($name:ident, $o:expr, $n:expr) => {
        #[kani::proof]
        #[kani::unwind(5)]
        fn $name() {
            merge2::<$o, $n>();
        }
    };
}

merge_harness!(c05_merge_uncond_then_cond, 5, 7);
merge_harness!(c05_merge_cond_then_uncond, 7, 5);
merge_harness!(c05_merge_cond_then_cond, 7, 7);
merge_harness!(c05_merge_uncond_then_uncond, 5, 5);
merge_harness!(c05_merge_nothing_then_cond, 0, 7);
merge_harness!(c05_merge_cond_then_nothing, 7, 0);

// ------------------------------------------------------------------------------------------------
// Use-time guards of header filters: a filter contributes (and its rule is reported as applied)
// iff its rule's response-status condition admits the response code.
use redirectionio::api::HeaderFilter;
use redirectionio::http::Header;

fn hf(name: u8, value: u8) -> HeaderFilter {
    HeaderFilter { action: String::from("add"), header: s1(name), value: s1(value), id: None, target_hash: None }
}

/// filter 0 (rule "p"): unconditional; filter 1 (rule "q"): one listed code, include/exclude symbolic
#[kani::proof]
#[kani::unwind(6)]
#[kani::stub(str::to_lowercase, ascii_lowercase_model)]
fn c05_header_filter_guards() {
    let code: u16 = kani::any();
    let exclude: bool = kani::any();
    let c: u16 = kani::any();
    let mut a = Action::verif_from_parts(
        None,
        None,
        vec![(hf(b'a', b'1'), Vec::new(), false, Some(s1(b'p'))), (hf(b'b', b'2'), vec![code], exclude, Some(s1(b'q')))],
        vec![(s1(b'p'), Vec::new(), false), (s1(b'q'), vec![code], exclude)],
    );
    let out = a.filter_headers(Vec::new(), c, false, None);
    let q_admitted = (code == c) != exclude;
    assert!(out.len() == if q_admitted { 2 } else { 1 });
    assert!(out[0].name.as_bytes()[0] == b'a' && out[0].value.as_bytes()[0] == b'1');
    if q_admitted {
        assert!(out[1].name.as_bytes()[0] == b'b' && out[1].value.as_bytes()[0] == b'2');
    }
    let mut p_applied = false;
    let mut q_applied = false;
    for id in a.get_applied_rule_ids().iter() {
        if id.as_bytes()[0] == b'p' {
            p_applied = true;
        }
        if id.as_bytes()[0] == b'q' {
            q_applied = true;
        }
    }
    assert!(p_applied);
    assert!(q_applied == q_admitted);
    kani::cover!(q_admitted && exclude);
    kani::cover!(!q_admitted && !exclude);
    std::mem::forget(out);
    std::mem::forget(a);
}
