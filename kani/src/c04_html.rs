//! C04 / C03 (part): the REAL public chain `FilterBodyAction::{new, filter, end}` with one HTML filter
//! whose element path cannot occur in the input ("no filter applies"): for a body `prefix ++ s`
//! (`prefix` concrete, `s` ALL byte strings of a small fixed length, valid UTF-8 or not) delivered in
//! two chunks cut at a fixed offset, the concatenation of the filtered chunks and the end-of-stream
//! output is the input, byte for byte.  This runs the tokenizer, the look-ahead loop for text containing
//! `<`, the carried `last_buffer`, and the error fallback of the chain.
//! Decided with CBMC's path-wise symbolic execution (`--paths lifo`).
use redirectionio::api::{BodyFilter, HTMLBodyFilter};
use redirectionio::filter::FilterBodyAction;

fn chain(action: &str) -> FilterBodyAction {
    let mut tree = Vec::with_capacity(1);
    // an element name longer than any tag the inputs below can spell
    tree.push(String::from("unreachable-element"));
    let mut fs = Vec::with_capacity(1);
    fs.push(BodyFilter::HTML(HTMLBodyFilter {
        action: String::from(action),
        value: String::from("X"),
        inner_value: None,
        element_tree: tree,
        css_selector: None,
        id: None,
        target_hash: None,
    }));
    FilterBodyAction::new(fs, &[])
}

fn chunk(b: &[u8], from: usize, to: usize) -> Vec<u8> {
    let mut v = Vec::with_capacity(to - from);
    let mut i = from;
    while i < to {
        v.push(b[i]);
        i += 1;
    }
    v
}

struct Out<const M: usize> {
    b: [u8; M],
    n: usize,
}

impl<const M: usize> Out<M> {
    fn take(&mut self, v: Vec<u8>) {
        let mut i = 0;
        while i < v.len() {
            assert!(self.n < M);
            self.b[self.n] = v[i];
            self.n += 1;
            i += 1;
        }
        std::mem::forget(v);
    }
}

/// N = total length, M = N + 1 (room to observe one duplicated byte), CUT = chunk boundary
fn passthrough<const S: usize, const N: usize, const M: usize>(prefix: &[u8], cut: usize, action: &str, ascii: bool) {
    let mut a = [0u8; N];
    let mut i = 0;
    while i < prefix.len() {
        a[i] = prefix[i];
        i += 1;
    }
    let mut j = 0;
    while j < S {
        let b: u8 = kani::any();
        if ascii {
            kani::assume(b < 0x80);
        }
        a[prefix.len() + j] = b;
        j += 1;
    }
    let mut f = chain(action);
    let mut o: Out<M> = Out { b: [0; M], n: 0 };
    o.take(f.filter(chunk(&a, 0, cut), None));
    o.take(f.filter(chunk(&a, cut, N), None));
    o.take(f.end(None));
    // nothing lost, nothing duplicated, nothing reordered
    assert!(o.n == N);
    let mut same = true;
    let mut i = 0;
    while i < N {
        same = same & (o.b[i] == a[i]);
        i += 1;
    }
    assert!(same);
    kani::cover!(o.n == N);
    std::mem::forget(f);
}

macro_rules! pt {
    ($name:ident, $prefix:expr, $s:expr, $n:expr, $m:expr, $cut:expr, $action:expr, $ascii:expr, $u:expr) => {
        #[kani::proof]
        #[kani::unwind($u)]
        #[kani::stub(str::to_lowercase, crate::util::ascii_lowercase_model)]
        fn $name() {
            passthrough::<$s, $n, $m>($prefix, $cut, $action, $ascii);
        }
    };
}

// a half-read tag carried over the chunk boundary, continuation bytes arbitrary (valid UTF-8 or not)
pt!(c04_html_pt_halftag_any, b"<a", 2, 4, 5, 2, "append_child", false, 22);
// one arbitrary byte after the carried half-read tag
pt!(c04_html_pt_halftag_any_s1, b"<a", 1, 3, 4, 2, "append_child", false, 22);
// the same with ASCII continuations only (no internal error possible)
pt!(c04_html_pt_halftag_ascii, b"<a", 2, 4, 5, 2, "append_child", true, 22);
// text containing '<' (the look-ahead loop), then a half-read tag at the cut
pt!(c04_html_pt_lt_text_ascii, b"1<2<d", 2, 7, 8, 5, "append_child", true, 22);
pt!(c04_html_pt_lt_text_cut_inside, b"1<2<d", 2, 7, 8, 6, "replace", true, 22);
pt!(c04_html_pt_text_ascii, b"", 3, 3, 4, 1, "prepend_child", true, 22);
