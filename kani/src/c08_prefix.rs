//! C08 harness A: the prefix cut is a safe, maximal common prefix for ALL ASCII pattern pairs
//! of the given lengths.
use crate::util::*;
use redirectionio::regex_radix_tree::{common_prefix_char_size, get_prefix_with_char_size};

/// (depth, escaped) after scanning the first k bytes of p, mirroring a regex reader:
/// an unescaped '\' escapes the next char; unescaped '(' / ')' change depth.
fn state_after(p: &[u8], k: usize) -> (i32, bool) {
    let mut depth: i32 = 0;
    let mut esc = false;
    let mut i = 0;
    while i < k {
        let c = p[i];
        if esc {
            esc = false;
        } else if c == b'\\' {
            esc = true;
        } else if c == b'(' {
            depth += 1;
        } else if c == b')' {
            depth -= 1;
        }
        i += 1;
    }
    (depth, esc)
}

fn safe_cut(p: &[u8], k: usize) -> bool {
    let (d, e) = state_after(p, k);
    d == 0 && !e
}

fn check<const A: usize, const B: usize>() {
    let aa = ascii_bytes::<A>();
    let bb = ascii_bytes::<B>();
    let a = as_str(&aa);
    let b = as_str(&bb);
    let k = common_prefix_char_size(a, b) as usize;
    // common
    assert!(k <= A && k <= B);
    let mut i = 0;
    while i < k {
        assert!(aa[i] == bb[i]);
        i += 1;
    }
    // safe: group depth 0, not right after an unescaped backslash
    assert!(safe_cut(&aa, k));
    // maximal: no longer safe cut inside the common run
    let mut common = 0;
    while common < A && common < B && aa[common] == bb[common] {
        common += 1;
    }
    let mut j = k + 1;
    while j <= common {
        assert!(!safe_cut(&aa, j));
        j += 1;
    }
    // symmetric
    assert!(common_prefix_char_size(b, a) as usize == k);
    kani::cover!(k > 0 && k < common);
    kani::cover!(k == common && k > 1);
}

#[kani::proof]
#[kani::unwind(7)]
fn c08_prefix_4x5() {
    check::<4, 5>();
}

#[kani::proof]
#[kani::unwind(7)]
fn c08_prefix_5x5() {
    check::<5, 5>();
}

#[kani::proof]
#[kani::unwind(8)]
fn c08_prefix_6x6() {
    check::<6, 6>();
}

#[kani::proof]
#[kani::unwind(9)]
fn c08_prefix_7x7() {
    check::<7, 7>();
}

#[kani::proof]
#[kani::unwind(9)]
fn c08_prefix_2x7() {
    check::<2, 7>();
}

#[kani::proof]
#[kani::unwind(5)]
fn c08_prefix_3x3() {
    check::<3, 3>();
}

/// get_prefix_with_char_size returns exactly the first `size` chars (clamped to the length),
/// for a concrete 2-byte char in the middle: "a\u{e9}b" with symbolic size.
#[kani::proof]
#[kani::unwind(6)]
fn c08_get_prefix_chars() {
    let s = "a\u{e9}b";
    let mut n = 0u32;
    while n <= 4 {
        let p = get_prefix_with_char_size(s, n);
        let want = match n {
            0 => "",
            1 => "a",
            2 => "a\u{e9}",
            _ => "a\u{e9}b",
        };
        assert!(p.len() == want.len());
        let mut i = 0;
        while i < want.len() {
            assert!(p.as_bytes()[i] == want.as_bytes()[i]);
            i += 1;
        }
        std::mem::forget(p);
        n += 1;
    }
}
