//! C03 / C04 (part): chains of text filters through the real FilterBodyAction::{new, filter, end}
//! for all byte contents and every partition of the body into <= 3 consecutive chunks (empty chunks
//! included).  Shapes (actions, body length, partition) are concrete per harness, contents symbolic.
use redirectionio::api::{BodyFilter, TextAction, TextBodyFilter};
use crate::util::*;
use redirectionio::filter::FilterBodyAction;

const OUT: usize = 6;

fn mk(a: u8, c: &[u8]) -> BodyFilter {
    let mut s = String::with_capacity(c.len());
    let mut i = 0;
    while i < c.len() {
        s.push(c[i] as char);
        i += 1;
    }
    BodyFilter::Text(TextBodyFilter {
        action: match a {
            0 => TextAction::Append,
            1 => TextAction::Prepend,
            _ => TextAction::Replace,
        },
        content: s,
        id: None,
        target_hash: None,
    })
}

struct Out {
    b: [u8; OUT],
    n: usize,
}

impl Out {
    fn new() -> Out {
        Out { b: [0; OUT], n: 0 }
    }
    fn take(&mut self, v: Vec<u8>) {
        let mut i = 0;
        while i < v.len() {
            assert!(self.n < OUT);
            self.b[self.n] = v[i];
            self.n += 1;
            i += 1;
        }
        std::mem::forget(v);
    }
    fn same(&self, o: &Out) {
        assert!(self.n == o.n);
        let mut i = 0;
        while i < OUT {
            if i < self.n {
                assert!(self.b[i] == o.b[i]);
            }
            i += 1;
        }
    }
}

fn slice_vec(b: &[u8], from: usize, to: usize) -> Vec<u8> {
    let mut v = Vec::with_capacity(to - from);
    let mut i = from;
    while i < to {
        v.push(b[i]);
        i += 1;
    }
    v
}

/// Run a chain over the body cut at (s1, s2): chunks [0,s1) [s1,s2) [s2,L).
fn run(filters: Vec<BodyFilter>, body: &[u8], s1: usize, s2: usize, three: bool) -> Out {
    let mut f = FilterBodyAction::new(filters, &[]);
    let mut o = Out::new();
    if three {
        o.take(f.filter(slice_vec(body, 0, s1), None));
        o.take(f.filter(slice_vec(body, s1, s2), None));
        o.take(f.filter(slice_vec(body, s2, body.len()), None));
    } else {
        o.take(f.filter(slice_vec(body, 0, body.len()), None));
    }
    o.take(f.end(None));
    std::mem::forget(f);
    o
}

/// Reference for a chain of text filters applied to a whole body (independent of the code):
/// append: b ++ c; prepend: c ++ b; replace: c.
fn reference(acts: &[u8], conts: &[&[u8]], body: &[u8]) -> Out {
    let mut cur = Out::new();
    let mut i = 0;
    while i < body.len() {
        cur.b[i] = body[i];
        i += 1;
    }
    cur.n = body.len();
    let mut k = 0;
    while k < acts.len() {
        let c = conts[k];
        let mut nxt = Out::new();
        if acts[k] == 0 {
            let mut i = 0;
            while i < cur.n {
                nxt.b[i] = cur.b[i];
                i += 1;
            }
            let mut j = 0;
            while j < c.len() {
                nxt.b[cur.n + j] = c[j];
                j += 1;
            }
            nxt.n = cur.n + c.len();
        } else if acts[k] == 1 {
            let mut j = 0;
            while j < c.len() {
                nxt.b[j] = c[j];
                j += 1;
            }
            let mut i = 0;
            while i < cur.n {
                nxt.b[c.len() + i] = cur.b[i];
                i += 1;
            }
            nxt.n = cur.n + c.len();
        } else {
            let mut j = 0;
            while j < c.len() {
                nxt.b[j] = c[j];
                j += 1;
            }
            nxt.n = c.len();
        }
        cur = nxt;
        k += 1;
    }
    cur
}

fn ascii<const N: usize>() -> [u8; N] {
    let b: [u8; N] = kani::any();
    let mut i = 0;
    while i < N {
        kani::assume(b[i] < 128);
        i += 1;
    }
    b
}

/// Two-filter chain (actions A0, A1; contents of 1 and 2 symbolic ASCII bytes), body of L symbolic
/// bytes, every partition into three chunks: output == single-chunk output == reference.
fn chain2<const A0: u8, const A1: u8, const L: usize, const S1: usize, const S2: usize>() {
    let body: [u8; L] = kani::any();
    let c0 = ascii::<1>();
    let c1 = ascii::<1>();
    let whole = run(vec![mk(A0, &c0), mk(A1, &c1)], &body, 0, 0, false);
    let r = reference(&[A0, A1], &[&c0, &c1], &body);
    whole.same(&r);
    // partitions into three consecutive chunks [0,S1) [S1,S2) [S2,L); S1 <= S2 are const parameters
    let parts = run(vec![mk(A0, &c0), mk(A1, &c1)], &body, S1, S2, true);
    parts.same(&whole);
    kani::cover!(whole.n > 0);
}

/// Single-stage chain: action A, content 1 symbolic byte, body L bytes cut at (S1, S2).
fn chain1<const A: u8, const L: usize, const S1: usize, const S2: usize>() {
    let body: [u8; L] = kani::any();
    let c0 = ascii::<1>();
    let whole = run(vec![mk(A, &c0)], &body, 0, 0, false);
    let r = reference(&[A], &[&c0], &body);
    whole.same(&r);
    let parts = run(vec![mk(A, &c0)], &body, S1, S2, true);
    parts.same(&whole);
    kani::cover!(whole.n > 0);
}

macro_rules! chain1_harness {
    ($name:ident, $a:expr, $l:expr, $s1:expr, $s2:expr) => {
        #[kani::proof]
        #[kani::unwind(8)]
        #[kani::stub(redirectionio::filter::HtmlFilterBodyAction::filter, html_filter_unreachable)]
        #[kani::stub(redirectionio::filter::HtmlFilterBodyAction::end, html_end_unreachable)]
        fn $name() {
            chain1::<$a, $l, $s1, $s2>();
        }
    };
}

chain1_harness!(c03_single_prepend_e_1_1, 1, 2, 0, 1);
chain1_harness!(c03_single_append_1_e_1, 0, 2, 1, 1);
chain1_harness!(c03_single_replace_e_b_e, 2, 2, 0, 2);

macro_rules! chain2_harness {
    ($name:ident, $a0:expr, $a1:expr, $l:expr, $s1:expr, $s2:expr) => {
        #[kani::proof]
        #[kani::unwind(8)]
        #[kani::stub(redirectionio::filter::HtmlFilterBodyAction::filter, html_filter_unreachable)]
        #[kani::stub(redirectionio::filter::HtmlFilterBodyAction::end, html_end_unreachable)]
        fn $name() {
            chain2::<$a0, $a1, $l, $s1, $s2>();
        }
    };
}

chain2_harness!(c03_chain_append_append_e_e_b, 0, 0, 2, 0, 0);
chain2_harness!(c03_chain_append_append_e_1_1, 0, 0, 2, 0, 1);
chain2_harness!(c03_chain_append_append_1_e_1, 0, 0, 2, 1, 1);
chain2_harness!(c03_chain_append_append_1_1_e, 0, 0, 2, 1, 2);
chain2_harness!(c03_chain_append_append_e_b_e, 0, 0, 2, 0, 2);
chain2_harness!(c03_chain_append_append_b_e_e, 0, 0, 2, 2, 2);
chain2_harness!(c03_chain_append_prepend_e_e_b, 0, 1, 2, 0, 0);
chain2_harness!(c03_chain_append_prepend_e_1_1, 0, 1, 2, 0, 1);
chain2_harness!(c03_chain_append_prepend_1_e_1, 0, 1, 2, 1, 1);
chain2_harness!(c03_chain_append_prepend_1_1_e, 0, 1, 2, 1, 2);
chain2_harness!(c03_chain_append_prepend_e_b_e, 0, 1, 2, 0, 2);
chain2_harness!(c03_chain_append_prepend_b_e_e, 0, 1, 2, 2, 2);
chain2_harness!(c03_chain_append_replace_e_e_b, 0, 2, 2, 0, 0);
chain2_harness!(c03_chain_append_replace_e_1_1, 0, 2, 2, 0, 1);
chain2_harness!(c03_chain_append_replace_1_e_1, 0, 2, 2, 1, 1);
chain2_harness!(c03_chain_append_replace_1_1_e, 0, 2, 2, 1, 2);
chain2_harness!(c03_chain_append_replace_e_b_e, 0, 2, 2, 0, 2);
chain2_harness!(c03_chain_append_replace_b_e_e, 0, 2, 2, 2, 2);
chain2_harness!(c03_chain_prepend_append_e_e_b, 1, 0, 2, 0, 0);
chain2_harness!(c03_chain_prepend_append_e_1_1, 1, 0, 2, 0, 1);
chain2_harness!(c03_chain_prepend_append_1_e_1, 1, 0, 2, 1, 1);
chain2_harness!(c03_chain_prepend_append_1_1_e, 1, 0, 2, 1, 2);
chain2_harness!(c03_chain_prepend_append_e_b_e, 1, 0, 2, 0, 2);
chain2_harness!(c03_chain_prepend_append_b_e_e, 1, 0, 2, 2, 2);
chain2_harness!(c03_chain_prepend_prepend_e_e_b, 1, 1, 2, 0, 0);
chain2_harness!(c03_chain_prepend_prepend_e_1_1, 1, 1, 2, 0, 1);
chain2_harness!(c03_chain_prepend_prepend_1_e_1, 1, 1, 2, 1, 1);
chain2_harness!(c03_chain_prepend_prepend_1_1_e, 1, 1, 2, 1, 2);
chain2_harness!(c03_chain_prepend_prepend_e_b_e, 1, 1, 2, 0, 2);
chain2_harness!(c03_chain_prepend_prepend_b_e_e, 1, 1, 2, 2, 2);
chain2_harness!(c03_chain_prepend_replace_e_e_b, 1, 2, 2, 0, 0);
chain2_harness!(c03_chain_prepend_replace_e_1_1, 1, 2, 2, 0, 1);
chain2_harness!(c03_chain_prepend_replace_1_e_1, 1, 2, 2, 1, 1);
chain2_harness!(c03_chain_prepend_replace_1_1_e, 1, 2, 2, 1, 2);
chain2_harness!(c03_chain_prepend_replace_e_b_e, 1, 2, 2, 0, 2);
chain2_harness!(c03_chain_prepend_replace_b_e_e, 1, 2, 2, 2, 2);
chain2_harness!(c03_chain_replace_append_e_e_b, 2, 0, 2, 0, 0);
chain2_harness!(c03_chain_replace_append_e_1_1, 2, 0, 2, 0, 1);
chain2_harness!(c03_chain_replace_append_1_e_1, 2, 0, 2, 1, 1);
chain2_harness!(c03_chain_replace_append_1_1_e, 2, 0, 2, 1, 2);
chain2_harness!(c03_chain_replace_append_e_b_e, 2, 0, 2, 0, 2);
chain2_harness!(c03_chain_replace_append_b_e_e, 2, 0, 2, 2, 2);
chain2_harness!(c03_chain_replace_prepend_e_e_b, 2, 1, 2, 0, 0);
chain2_harness!(c03_chain_replace_prepend_e_1_1, 2, 1, 2, 0, 1);
chain2_harness!(c03_chain_replace_prepend_1_e_1, 2, 1, 2, 1, 1);
chain2_harness!(c03_chain_replace_prepend_1_1_e, 2, 1, 2, 1, 2);
chain2_harness!(c03_chain_replace_prepend_e_b_e, 2, 1, 2, 0, 2);
chain2_harness!(c03_chain_replace_prepend_b_e_e, 2, 1, 2, 2, 2);
chain2_harness!(c03_chain_replace_replace_e_e_b, 2, 2, 2, 0, 0);
chain2_harness!(c03_chain_replace_replace_e_1_1, 2, 2, 2, 0, 1);
chain2_harness!(c03_chain_replace_replace_1_e_1, 2, 2, 2, 1, 1);
chain2_harness!(c03_chain_replace_replace_1_1_e, 2, 2, 2, 1, 2);
chain2_harness!(c03_chain_replace_replace_e_b_e, 2, 2, 2, 0, 2);
chain2_harness!(c03_chain_replace_replace_b_e_e, 2, 2, 2, 2, 2);
