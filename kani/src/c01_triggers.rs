//! C01 (part): the per-trigger predicates sat(r, q) that the router index evaluates.
use chrono::{DateTime, Datelike, NaiveDateTime, NaiveTime, Utc, Weekday};
use redirectionio::router::{RouteDateTime, RouteIp, RouteTime, RouteWeekday};
use std::net::{IpAddr, Ipv4Addr, Ipv6Addr};

/// IPv4: in-range / not-in-range equals mask arithmetic for ALL nets, prefix lengths and addresses.
#[kani::proof]
fn c01_ip_v4() {
    let net: u32 = kani::any();
    let len: u8 = kani::any();
    kani::assume(len <= 32);
    let mask: u32 = if len == 0 { 0 } else { u32::MAX << (32 - len as u32) };
    kani::assume(net & !mask == 0);
    let cidr = match cidr::Ipv4Cidr::new(Ipv4Addr::from(net), len) {
        Ok(c) => c,
        Err(_) => {
            assert!(false, "valid cidr rejected");
            return;
        }
    };
    let any = cidr::AnyIpCidr::V4(cidr);
    let ip: u32 = kani::any();
    let addr = IpAddr::V4(Ipv4Addr::from(ip));
    let inr = RouteIp::InRange(any.clone()).match_ip(&addr);
    let ninr = RouteIp::NotInRange(any).match_ip(&addr);
    assert!(inr == ((ip & mask) == net));
    assert!(ninr == !inr);
    kani::cover!(inr && len > 0 && len < 32);
    kani::cover!(!inr);
}

/// IPv6: same with u128; and a v4 range never contains a v6 address (and vice versa).
#[kani::proof]
fn c01_ip_v6() {
    let net: u128 = kani::any();
    let len: u8 = kani::any();
    kani::assume(len <= 128);
    let mask: u128 = if len == 0 { 0 } else { u128::MAX << (128 - len as u32) };
    kani::assume(net & !mask == 0);
    let cidr = match cidr::Ipv6Cidr::new(Ipv6Addr::from(net), len) {
        Ok(c) => c,
        Err(_) => {
            assert!(false, "valid cidr rejected");
            return;
        }
    };
    let any = cidr::AnyIpCidr::V6(cidr);
    let ip: u128 = kani::any();
    let addr = IpAddr::V6(Ipv6Addr::from(ip));
    let inr = RouteIp::InRange(any.clone()).match_ip(&addr);
    let ninr = RouteIp::NotInRange(any.clone()).match_ip(&addr);
    assert!(inr == ((ip & mask) == net));
    assert!(ninr == !inr);
    // cross family
    let ip4: u32 = kani::any();
    let addr4 = IpAddr::V4(Ipv4Addr::from(ip4));
    assert!(!RouteIp::InRange(any.clone()).match_ip(&addr4));
    assert!(RouteIp::NotInRange(any).match_ip(&addr4));
    kani::cover!(inr && len > 0 && len < 128);
    kani::cover!(!inr);
}

fn instant() -> (i64, DateTime<Utc>) {
    let secs: i64 = kani::any();
    kani::assume(secs >= 0 && secs < 4_000_000_000);
    match DateTime::<Utc>::from_timestamp(secs, 0) {
        Some(d) => (secs, d),
        None => {
            assert!(false, "instant in range rejected");
            unreachable!()
        }
    }
}

fn opt_tod() -> (Option<u32>, Option<NaiveTime>) {
    if kani::any() {
        let s: u32 = kani::any();
        kani::assume(s < 86400);
        (Some(s), NaiveTime::from_num_seconds_from_midnight_opt(s, 0))
    } else {
        (None, None)
    }
}

/// Time-of-day window: start inclusive, end exclusive, each bound optional.
#[kani::proof]
fn c01_time_window() {
    let (secs, dt) = instant();
    let (s, st) = opt_tod();
    let (e, en) = opt_tod();
    assert!(s.is_some() == st.is_some() && e.is_some() == en.is_some());
    let rt = RouteTime { start: st, end: en };
    let tod = (secs % 86400) as u32;
    let want = (match s {
        None => true,
        Some(s) => tod >= s,
    }) && (match e {
        None => true,
        Some(e) => tod < e,
    });
    assert!(rt.match_datetime(&dt) == want);
    kani::cover!(s.is_some() && e.is_some() && want);
    kani::cover!(e == Some(tod));
    kani::cover!(s == Some(tod));
}

/// A calendar instant built field-wise (year 1970..=2100, any valid month/day, any second of day), so
/// that no 64-bit division by 86400 / 146097 is needed per value (three of those made the query
/// time out at 30 min; see DESIGN C01).  Returns the tuple used by the reference comparison.
fn cal() -> ((i32, u32, u32, u32), NaiveDateTime) {
    let y: i32 = kani::any();
    let m: u32 = kani::any();
    let d: u32 = kani::any();
    let s: u32 = kani::any();
    kani::assume(y >= 1970 && y <= 2100 && m >= 1 && m <= 12 && d >= 1 && d <= 31 && s < 86400);
    let date = chrono::NaiveDate::from_ymd_opt(y, m, d);
    kani::assume(date.is_some());
    let time = NaiveTime::from_num_seconds_from_midnight_opt(s, 0);
    match (date, time) {
        (Some(date), Some(time)) => ((y, m, d, s), date.and_time(time)),
        _ => {
            assert!(false);
            unreachable!()
        }
    }
}

fn opt_cal() -> (Option<(i32, u32, u32, u32)>, Option<NaiveDateTime>) {
    if kani::any() {
        let (k, v) = cal();
        (Some(k), Some(v))
    } else {
        (None, None)
    }
}

/// Date-time window: start inclusive, end exclusive, each bound optional.
#[kani::proof]
fn c01_datetime_window() {
    let (now, ndt) = cal();
    let dt = DateTime::<Utc>::from_naive_utc_and_offset(ndt, Utc);
    let (s, st) = opt_cal();
    let (e, en) = opt_cal();
    let r = RouteDateTime { start: st, end: en };
    let want = (match s {
        None => true,
        Some(s) => now >= s,
    }) && (match e {
        None => true,
        Some(e) => now < e,
    });
    assert!(r.match_datetime(&dt) == want);
    kani::cover!(s.is_some() && e.is_some() && want);
    kani::cover!(e == Some(now));
    kani::cover!(s == Some(now));
    kani::cover!(s.is_some() && s.unwrap().0 < now.0 && !want);
}

fn wd(i: u8) -> Weekday {
    match i % 7 {
        0 => Weekday::Mon,
        1 => Weekday::Tue,
        2 => Weekday::Wed,
        3 => Weekday::Thu,
        4 => Weekday::Fri,
        5 => Weekday::Sat,
        _ => Weekday::Sun,
    }
}

/// Weekday list: matches iff the weekday of the instant (1970-01-01 was a Thursday) is listed.
#[kani::proof]
#[kani::unwind(4)]
fn c01_weekday() {
    let (secs, dt) = instant();
    let a: u8 = kani::any();
    let b: u8 = kani::any();
    kani::assume(a < 7 && b < 7);
    let two: bool = kani::any();
    let days = if two { vec![wd(a), wd(b)] } else { vec![wd(a)] };
    let r = RouteWeekday { weekdays: redirectionio::router::Weekdays(days) };
    let today = (((secs / 86400) + 3) % 7) as u8; // Monday = 0
    let want = today == a || (two && today == b);
    assert!(r.match_datetime(&dt) == want);
    kani::cover!(want && two && today == b && a != b);
    kani::cover!(!want);
    std::mem::forget(r);
}

/// DateTimeCondition::match_value: any-of over the listed ranges; a request without creation time
/// never satisfies a date/time condition.
#[kani::proof]
#[kani::unwind(4)]
fn c01_datetime_condition_any_of() {
    use redirectionio::router::request_matcher::DateTimeCondition;
    let (s0, st0) = opt_tod();
    let (e0, en0) = opt_tod();
    let (s1, st1) = opt_tod();
    let (e1, en1) = opt_tod();
    let cond = DateTimeCondition::TimeRange(vec![RouteTime { start: st0, end: en0 }, RouteTime { start: st1, end: en1 }]);
    let has_time: bool = kani::any();
    let (secs, dt) = instant();
    let mut req = crate::util::request_with(Vec::new());
    req.created_at = if has_time { Some(dt) } else { None };
    let tod = (secs % 86400) as u32;
    let inr = |s: Option<u32>, e: Option<u32>| -> bool {
        (match s {
            None => true,
            Some(s) => tod >= s,
        }) && (match e {
            None => true,
            Some(e) => tod < e,
        })
    };
    let want = has_time && (inr(s0, e0) || inr(s1, e1));
    assert!(cond.match_value(&req) == want);
    kani::cover!(has_time && !inr(s0, e0) && inr(s1, e1));
    kani::cover!(!has_time);
    std::mem::forget(req);
    std::mem::forget(cond);
}
