//! Kani proof harnesses over the real libredirectionio code (path dependency on /repo).
//! One module per harness family; harness names are `cNN_<what>`.  Metadata (bounds, flags,
//! functions encoded, tiers) lives in ../harnesses.toml and is what the driver reads.
//! Each module sits behind a cargo feature of the same name so that a check only compiles
//! (codegens) the harness families of its own property.
#![allow(dead_code, unused_imports, clippy::all)]
#![cfg_attr(kani, feature(allocator_api))]

#[cfg(all(kani, test))]
mod audit_alloc;
#[cfg(all(kani, test))]
#[global_allocator]
static AUDIT: audit_alloc::Audit = audit_alloc::Audit;

#[cfg(kani)]
mod util;
#[cfg(all(kani, feature = "c01_triggers"))]
mod c01_triggers;
#[cfg(all(kani, feature = "c01_headers"))]
mod c01_headers;
#[cfg(all(kani, feature = "c03_text"))]
mod c03_text;
#[cfg(all(kani, feature = "c05_kernels"))]
mod c05_kernels;
#[cfg(all(kani, feature = "c05_fold"))]
mod c05_fold;
#[cfg(all(kani, feature = "c07_panics"))]
mod c07_panics;
#[cfg(all(kani, feature = "c08_prefix"))]
mod c08_prefix;
#[cfg(all(kani, feature = "c08_tree"))]
mod c08_tree;
#[cfg(all(kani, feature = "c11_order"))]
mod c11_order;
#[cfg(all(kani, feature = "c13_headers"))]
mod c13_headers;
#[cfg(all(kani, feature = "c18_buffer"))]
mod c18_buffer;
#[cfg(all(kani, feature = "c18_ffi"))]
mod c18_ffi;
#[cfg(all(kani, any(feature = "c01_router", feature = "c02_layers")))]
mod c01_router;
#[cfg(all(kani, feature = "c03_stage"))]
mod c03_stage;
#[cfg(all(kani, feature = "c05_merge"))]
mod c05_merge;
#[cfg(all(kani, feature = "c02_layers"))]
mod c02_layers;
#[cfg(all(kani, feature = "c16_tokenizer"))]
mod c16_tokenizer;
#[cfg(all(kani, feature = "c05_foldp"))]
mod c05_foldp;
#[cfg(all(kani, feature = "c04_html"))]
mod c04_html;
