//! Helpers shared by harnesses.  Rule (DESIGN §0): shapes/lengths are concrete, contents symbolic.

/// N symbolic ASCII bytes (< 0x80).
pub fn ascii_bytes<const N: usize>() -> [u8; N] {
    let b: [u8; N] = kani::any();
    let mut i = 0;
    while i < N {
        kani::assume(b[i] < 128);
        i += 1;
    }
    b
}

/// N symbolic bytes drawn from `alpha`.
pub fn bytes_from<const N: usize>(alpha: &[u8]) -> [u8; N] {
    let b: [u8; N] = kani::any();
    let mut i = 0;
    while i < N {
        let mut ok = false;
        let mut j = 0;
        while j < alpha.len() {
            if b[i] == alpha[j] {
                ok = true;
            }
            j += 1;
        }
        kani::assume(ok);
        i += 1;
    }
    b
}

/// View a fixed ASCII array as &str (no allocation, concrete length).
pub fn as_str(b: &[u8]) -> &str {
    unsafe { std::str::from_utf8_unchecked(b) }
}

/// Owned String of concrete length N and symbolic ASCII content.
pub fn string_of<const N: usize>(b: &[u8; N]) -> String {
    let mut s = String::with_capacity(N);
    let mut i = 0;
    while i < N {
        s.push(b[i] as char);
        i += 1;
    }
    s
}

pub fn lc(b: u8) -> u8 {
    if b >= b'A' && b <= b'Z' { b + 32 } else { b }
}

pub fn s1(b: u8) -> String {
    let mut s = String::with_capacity(1);
    s.push(b as char);
    s
}

/// A Request literal (all fields are pub; Request::new is avoided because it reads the clock).
pub fn request_with(headers: Vec<redirectionio::http::Header>) -> redirectionio::http::Request {
    redirectionio::http::Request {
        path_and_query_skipped: redirectionio::http::PathAndQueryWithSkipped {
            path_and_query: String::from("/"),
            path_and_query_matching: Some(String::from("/")),
            skipped_query_params: None,
            original: String::from("/"),
        },
        path_and_query: Some(String::from("/")),
        host: None,
        scheme: None,
        method: None,
        headers,
        remote_addr: None,
        created_at: None,
        sampling_override: None,
    }
}

/// Model of `core::mem::swap` as a typed three-move swap.  std implements it with untyped
/// chunk-wise byte copies, after which CBMC no longer constant-propagates enum discriminants
/// (measured: one insert into an empty tree > 5 min with std's swap, 2.5 s with this one).
pub fn typed_swap<T>(a: &mut T, b: &mut T) {
    unsafe {
        let t = std::ptr::read(a);
        std::ptr::write(a, std::ptr::read(b));
        std::ptr::write(b, t);
    }
}

/// ASCII-only, length-preserving model of `str::to_lowercase` (std's version builds the result
/// char by char through a Unicode table, which makes the result length symbolic for CBMC).
pub fn ascii_lowercase_model(s: &str) -> String {
    let b = s.as_bytes();
    let mut v: Vec<u8> = Vec::with_capacity(b.len());
    let mut i = 0;
    while i < b.len() {
        v.push(lc(b[i]));
        i += 1;
    }
    unsafe { String::from_utf8_unchecked(v) }
}

pub fn empty_source() -> redirectionio::api::Source {
    redirectionio::api::Source {
        scheme: None,
        host: None,
        ips: None,
        datetime: None,
        time: None,
        path: String::from("/"),
        query: None,
        headers: None,
        methods: None,
        exclude_methods: None,
        response_status_codes: None,
        exclude_response_status_codes: None,
        sampling: None,
        weekdays: None,
    }
}

/// The HTML stage is never constructed in these harnesses, but the chain is a heap Vec of an enum
/// whose discriminant CBMC does not constant-propagate, so symbolic execution would descend into the
/// HTML tokenizer (and the SipHash-based void-element set) on an impossible branch.  These stubs
/// turn that branch into an assertion: if the HTML stage were reachable the harness FAILS, so the
/// cut cannot hide anything.
pub fn html_filter_unreachable(
    _this: &mut redirectionio::filter::HtmlFilterBodyAction,
    _input: Vec<u8>,
    _unit_trace: Option<&mut redirectionio::action::UnitTrace>,
) -> Result<Vec<u8>, redirectionio::filter::VerifFilterBodyError> {
    panic!("HTML stage reached in a text-only chain")
}

pub fn html_end_unreachable(_this: &mut redirectionio::filter::HtmlFilterBodyAction) -> Vec<u8> {
    panic!("HTML stage reached in a text-only chain")
}


/// The fold harnesses use rules without markers, variables or transformers, but the captured-marker
/// map and the rule live on the heap, where CBMC does not constant-propagate lengths, so symbolic
/// execution would descend into every transformer (heck, Unicode case tables) and variable kind
/// (date/IP formatting) on impossible branches.  These stubs turn the branches into assertions: if
/// one were reachable the harness FAILS, so the cut cannot hide anything.
pub fn to_transform_unreachable(_t: &redirectionio::api::Transformer) -> Option<Box<dyn redirectionio::marker::Transform>> {
    panic!("transformer reached in a harness without transformers")
}

pub fn variable_value_unreachable(
    _v: &redirectionio::api::Variable,
    _m: &redirectionio::verif_shim::map::HashMap<String, String>,
    _r: &redirectionio::http::Request,
) -> String {
    panic!("variable evaluated in a harness without variables")
}

/// Exact models of Route::capture and Rule::variables for rules WITHOUT markers and variables (the
/// only rules the fold harnesses build): both return empty containers.  The preconditions that make
/// the models exact are asserted inside them.  The real functions build and drop several heap maps
/// and vectors whose lengths CBMC treats as symbolic (800 drop-glue iterations, > 10 GB).
pub fn capture_nothing<T>(
    r: &redirectionio::router::Route<T>,
    _req: &redirectionio::http::Request,
) -> redirectionio::verif_shim::map::HashMap<String, String> {
    assert!(r.host().is_none() && r.headers().is_empty());
    match r.path_and_query() {
        redirectionio::marker::StaticOrDynamic::Static(_) => {}
        _ => assert!(false, "capture model used on a route with markers"),
    }
    redirectionio::verif_shim::map::HashMap::new()
}

pub fn variables_nothing(
    rule: &redirectionio::api::Rule,
    captured: &redirectionio::verif_shim::map::HashMap<String, String>,
    _req: &redirectionio::http::Request,
) -> Vec<(String, String)> {
    assert!(rule.variables.is_empty() && rule.markers.is_empty() && captured.is_empty());
    Vec::new()
}

/// `Arc::drop_slow` (the last reference goes away: the whole Route<Rule> is dropped field by field)
/// is unreachable in harnesses that keep a clone of every Arc they hand over, as a router does.
/// The stub asserts exactly that, so the cut cannot hide anything; it removes ~1500 drop-glue loop
/// iterations over heap vectors whose lengths CBMC treats as symbolic.
pub fn arc_drop_slow_unreachable<T: ?Sized, A: std::alloc::Allocator>(_this: &mut std::sync::Arc<T, A>) {
    panic!("last Arc reference dropped although the harness keeps a clone")
}
