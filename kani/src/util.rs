//! Helpers shared by harnesses.  Rule (DESIGN §0): shapes/lengths are concrete, contents symbolic.

/// N symbolic ASCII bytes (< 0x80).
pub fn ascii_bytes<const N: usize>() -> [u8; N] {
    let b: [u8; N] = kani::any();
    let mut i = 0;
    while i < N {
        kani::assume(b[i] < 128);
        i += 1;
    }
    b
}

/// N symbolic bytes drawn from `alpha`.
pub fn bytes_from<const N: usize>(alpha: &[u8]) -> [u8; N] {
    let b: [u8; N] = kani::any();
    let mut i = 0;
    while i < N {
        let mut ok = false;
        let mut j = 0;
        while j < alpha.len() {
            if b[i] == alpha[j] {
                ok = true;
            }
            j += 1;
        }
        kani::assume(ok);
        i += 1;
    }
    b
}

/// View a fixed ASCII array as &str (no allocation, concrete length).
pub fn as_str(b: &[u8]) -> &str {
    unsafe { std::str::from_utf8_unchecked(b) }
}

/// Owned String of concrete length N and symbolic ASCII content.
pub fn string_of<const N: usize>(b: &[u8; N]) -> String {
    let mut s = String::with_capacity(N);
    let mut i = 0;
    while i < N {
        s.push(b[i] as char);
        i += 1;
    }
    s
}

pub fn lc(b: u8) -> u8 {
    if b >= b'A' && b <= b'Z' { b + 32 } else { b }
}

pub fn s1(b: u8) -> String {
    let mut s = String::with_capacity(1);
    s.push(b as char);
    s
}

/// A Request literal (all fields are pub; Request::new is avoided because it reads the clock).
pub fn request_with(headers: Vec<redirectionio::http::Header>) -> redirectionio::http::Request {
    redirectionio::http::Request {
        path_and_query_skipped: redirectionio::http::PathAndQueryWithSkipped {
            path_and_query: String::from("/"),
            path_and_query_matching: Some(String::from("/")),
            skipped_query_params: None,
            original: String::from("/"),
        },
        path_and_query: Some(String::from("/")),
        host: None,
        scheme: None,
        method: None,
        headers,
        remote_addr: None,
        created_at: None,
        sampling_override: None,
    }
}

/// Model of `core::mem::swap` as a typed three-move swap.  std implements it with untyped
/// chunk-wise byte copies, after which CBMC no longer constant-propagates enum discriminants
/// (measured: one insert into an empty tree > 5 min with std's swap, 2.5 s with this one).
pub fn typed_swap<T>(a: &mut T, b: &mut T) {
    unsafe {
        let t = std::ptr::read(a);
        std::ptr::write(a, std::ptr::read(b));
        std::ptr::write(b, t);
    }
}

/// ASCII-only, length-preserving model of `str::to_lowercase` (std's version builds the result
/// char by char through a Unicode table, which makes the result length symbolic for CBMC).
pub fn ascii_lowercase_model(s: &str) -> String {
    let b = s.as_bytes();
    let mut v: Vec<u8> = Vec::with_capacity(b.len());
    let mut i = 0;
    while i < b.len() {
        v.push(lc(b[i]));
        i += 1;
    }
    unsafe { String::from_utf8_unchecked(v) }
}

pub fn empty_source() -> redirectionio::api::Source {
    redirectionio::api::Source {
        scheme: None,
        host: None,
        ips: None,
        datetime: None,
        time: None,
        path: String::from("/"),
        query: None,
        headers: None,
        methods: None,
        exclude_methods: None,
        response_status_codes: None,
        exclude_response_status_codes: None,
        sampling: None,
        weekdays: None,
    }
}
