//! C05 harness B / C11 harness B: the real Action::from_routes_rule (sort + merge + reset + stop) and
//! the response-code guards evaluated at use time, against a reference fold written over plain
//! arrays.  Two or three rules with concrete shapes (which rule has a status code / a response-code
//! list / a log override) and symbolic ranks, status codes, listed codes, exclude/reset/stop flags.
use crate::util::*;
use redirectionio::action::Action;
use redirectionio::api::Rule;
use redirectionio::marker::StaticOrDynamic;
use redirectionio::router::Route;
use std::sync::Arc;

#[derive(Clone, Copy)]
pub struct R {
    pub id: u8,            // one ASCII byte
    pub rank: u16,
    pub status: Option<u16>, // rule.status_code
    pub code: Option<u16>, // single listed response code (None = unconditional)
    pub exclude: bool,
    pub reset: bool,
    pub stop: bool,
    pub log: Option<bool>,
}

fn route(r: &R) -> Arc<Route<Rule>> {
    let mut src = empty_source();
    src.response_status_codes = match r.code {
        None => None,
        Some(c) => Some(vec![c]),
    };
    src.exclude_response_status_codes = if r.exclude { Some(true) } else { None };
    let rule = Rule {
        id: s1(r.id),
        source: src,
        target: None,
        status_code: r.status,
        rank: r.rank,
        markers: Vec::new(),
        variables: Vec::new(),
        body_filters: None,
        header_filters: None,
        log_override: r.log,
        reset: if r.reset { Some(true) } else { None },
        stop: if r.stop { Some(true) } else { None },
        examples: None,
        redirect_unit_id: None,
        configuration_log_unit_id: None,
        configuration_reset_unit_id: None,
        target_hash: None,
    };
    Arc::new(Route::new(
        None,
        None,
        None,
        None,
        StaticOrDynamic::Static(String::from("/")),
        Vec::new(),
        None,
        None,
        None,
        None,
        s1(r.id),
        0 - r.rank as i64,
        rule,
    ))
}

/// does the rule's response-status condition admit code c?  (no list: yes, i.e. unconditional)
fn admits(r: &R, c: u16) -> bool {
    match r.code {
        None => true,
        Some(l) => (l == c) != r.exclude,
    }
}

#[derive(Clone, Copy)]
struct St {
    status: u16,
    id: u8,
    code: Option<u16>,
    exclude: bool,
    fb_status: u16,
    fb_id: u8, // 0 = none
}

#[derive(Clone, Copy)]
struct Lg {
    log: bool,
    id: u8,
    code: Option<u16>,
    exclude: bool,
    fb: Option<bool>,
    fb_id: u8,
}

/// Reference: rules applied by (rank desc, id desc); reset replaces, stop ends the fold; a new status
/// replaces the old one, except that an old *unconditional* status stays as fallback of a new
/// *conditional* one.  Returns (status for c, applied id for status, log decision for c).
pub fn reference<const N: usize>(rs: &[R; N], c: u16, allow_log: bool) -> (u16, u8, bool, [bool; N]) {
    // order
    let mut idx = [0usize; N];
    let mut i = 0;
    while i < N {
        idx[i] = i;
        i += 1;
    }
    // insertion sort by (rank desc, id desc)
    let mut i = 1;
    while i < N {
        let mut j = i;
        while j > 0 {
            let (a, b) = (&rs[idx[j - 1]], &rs[idx[j]]);
            let before = a.rank > b.rank || (a.rank == b.rank && a.id > b.id);
            if before {
                break;
            }
            idx.swap(j - 1, j);
            j -= 1;
        }
        i += 1;
    }
    let mut st: Option<St> = None;
    let mut lg: Option<Lg> = None;
    let mut contributes = [false; N];
    let mut k = 0;
    while k < N {
        let r = &rs[idx[k]];
        if r.reset {
            st = None;
            lg = None;
            contributes = [false; N];
        }
        contributes[idx[k]] = true;
        let rstat = match r.status {
            Some(s) if s != 0 => Some(s),
            _ => None,
        };
        if let Some(s) = rstat {
            st = Some(match st {
                Some(old) if old.code.is_none() && r.code.is_some() => {
                    St { status: s, id: r.id, code: r.code, exclude: r.exclude, fb_status: old.status, fb_id: old.id }
                }
                _ => St { status: s, id: r.id, code: r.code, exclude: r.exclude, fb_status: 0, fb_id: 0 },
            });
        }
        if let Some(l) = r.log {
            lg = Some(match lg {
                Some(old) if old.code.is_none() && r.code.is_some() => {
                    Lg { log: l, id: r.id, code: r.code, exclude: r.exclude, fb: Some(old.log), fb_id: old.id }
                }
                _ => Lg { log: l, id: r.id, code: r.code, exclude: r.exclude, fb: None, fb_id: 0 },
            });
        }
        if r.stop {
            break;
        }
        k += 1;
    }
    let (status, sid) = match st {
        None => (0, 0),
        Some(s) => {
            let adm = match s.code {
                None => c == 0,
                Some(l) => (l == c) != s.exclude,
            };
            if adm {
                (s.status, s.id)
            } else if c != 0 {
                (s.fb_status, s.fb_id)
            } else {
                (0, 0)
            }
        }
    };
    let log = match lg {
        None => allow_log,
        Some(l) => {
            let adm = match l.code {
                None => true,
                Some(x) => (x == c) != l.exclude,
            };
            if adm {
                l.log
            } else {
                match l.fb {
                    Some(b) => b,
                    None => allow_log,
                }
            }
        }
    };
    (status, sid, log, contributes)
}

/// FLAGS bits: 1 = reset, 2 = stop.  The flags and the rank ORDER are concrete per harness (they
/// decide the control flow of the fold; with symbolic flags and ranks the merged heap states did not
/// finish symbolic execution in 15 min), the data are symbolic: status, listed code, exclude, log.
/// Model of Action::from_route_rule for rules that carry only a status code, a response-code list,
/// an exclude flag, a log override and reset/stop (the only rules these harnesses build): the same
/// (action, reset, stop, unit id) tuple, built from the rule's fields through the constructor hook
/// without the heavy capture / variable / clone work of the real function.  The real function is
/// compared with this model on a single rule by `c05_from_route_rule_matches_model`; with it stubbed,
/// the REAL sort + fold loop (reset replaces, stop returns, merge otherwise) of from_routes_rule is
/// what these harnesses decide.
pub fn from_route_rule_model(
    route: Arc<Route<Rule>>,
    _request: &redirectionio::http::Request,
) -> (Option<Action>, bool, bool, Option<String>) {
    let rule = route.handler();
    assert!(rule.source.sampling.is_none() && rule.target.is_none());
    assert!(rule.header_filters.is_none() && rule.body_filters.is_none());
    let codes = |r: &Rule| -> Vec<u16> {
        match r.source.response_status_codes.as_ref() {
            None => Vec::new(),
            Some(c) => c.clone(),
        }
    };
    let exclude = rule.source.exclude_response_status_codes.is_some();
    let status = match rule.status_code.unwrap_or(0) {
        0 => None,
        sc => Some(redirectionio::action::StatusCodeUpdate {
            status_code: sc,
            on_response_status_codes: codes(rule),
            exclude_response_status_codes: exclude,
            fallback_status_code: 0,
            rule_id: Some(rule.id.clone()),
            fallback_rule_id: None,
            unit_id: None,
            target_hash: None,
        }),
    };
    let log = rule.log_override.map(|l| redirectionio::action::VerifLogOverride {
        log_override: l,
        rule_id: Some(rule.id.clone()),
        on_response_status_codes: codes(rule),
        exclude_response_status_codes: exclude,
        fallback_log_override: None,
        fallback_rule_id: None,
        unit_id: None,
    });
    let action = Action::verif_from_parts(status, log, Vec::new(), vec![(rule.id.clone(), codes(rule), exclude)]);
    let out = (Some(action), rule.reset.unwrap_or(false), rule.stop.unwrap_or(false), None);
    std::mem::forget(route);
    out
}

fn sym_rule(id: u8, rank: u16, shape: u8, flags: u8) -> R {
    let status: u16 = kani::any();
    let code: u16 = kani::any();
    let log: bool = kani::any();
    kani::assume(status >= 300 && status < 310);
    kani::assume(code == 200 || code == 404 || code == 0);
    let has_code = shape & 2 != 0;
    R {
        id,
        rank,
        status: if shape & 1 != 0 { Some(status) } else { None },
        code: if has_code { Some(code) } else { None },
        exclude: if has_code { kani::any() } else { false },
        reset: flags & 1 != 0,
        stop: flags & 2 != 0,
        log: if shape & 4 != 0 { Some(log) } else { None },
    }
}

pub fn observe(routes: Vec<Arc<Route<Rule>>>, c: u16, allow_log: bool) -> (u16, bool, Action) {
    let req = request_with(Vec::new());
    let mut action = Action::from_routes_rule(routes, &req, None);
    let status = action.get_status_code(c, None);
    let log = action.should_log_request(allow_log, c, None);
    std::mem::forget(req);
    (status, log, action)
}

/// shape bits per rule: 1 = has status, 2 = has response-code list, 4 = has log override.
/// ORDER: 0 = rank(a) > rank(b), 1 = rank(a) < rank(b), 2 = tie (ids decide).  SWAP: the order in
/// which the two matched routes are handed over (must not matter: C11).
fn fold2<const S0: u8, const S1: u8, const F0: u8, const F1: u8, const ORDER: u8, const SWAP: bool>() {
    // ranks are concrete: a symbolic base made the sort order symbolic for CBMC's simplifier and
    // every later pointer an if-then-else (10 GB during symbolic execution)
    let (ra, rb): (u16, u16) = match ORDER {
        0 => (8, 7),
        1 => (7, 8),
        _ => (7, 7),
    };
    let rs = [sym_rule(b'a', ra, S0, F0), sym_rule(b'b', rb, S1, F1)];
    let c: u16 = kani::any();
    kani::assume(c == 0 || c == 200 || c == 404 || c == 500);
    let allow_log: bool = kani::any();
    let (r0, r1) = (route(&rs[0]), route(&rs[1]));
    // the router keeps its own references to the matched routes
    std::mem::forget(r0.clone());
    std::mem::forget(r1.clone());
    let routes = if SWAP { vec![r1, r0] } else { vec![r0, r1] };
    let (status, log, action) = observe(routes, c, allow_log);
    let (want_status, want_id, want_log, _contrib) = reference(&rs, c, allow_log);
    assert!(status == want_status);
    assert!(log == want_log);
    // the rule credited for the status code is reported as applied
    if want_id != 0 {
        let applied = action.get_applied_rule_ids();
        let mut found = false;
        for id in applied.iter() {
            if id.as_bytes()[0] == want_id {
                found = true;
            }
        }
        assert!(found);
    }
    kani::cover!(status != 0);
    kani::cover!(status == 0);
    std::mem::forget(action);
}

macro_rules! fold2_harness {
    ($name:ident, $s0:expr, $s1:expr, $f0:expr, $f1:expr, $order:expr, $swap:expr) => {
        #[kani::proof]
        #[kani::unwind(6)]
        #[kani::stub(std::mem::swap, typed_swap)]
        #[kani::stub(std::sync::Arc::drop_slow, arc_drop_slow_unreachable)]
        #[kani::stub(redirectionio::action::Action::from_route_rule, from_route_rule_model)]
        fn $name() {
            fold2::<$s0, $s1, $f0, $f1, $order, $swap>();
        }
    };
}

// a: unconditional status, b: conditional status.  b applied last (rank a > rank b): fallback merge
fold2_harness!(c05_fold2_fallback_merge, 1, 3, 0, 0, 0, false);
// same rules handed over in the other order (C11) and applied in the other rank order
fold2_harness!(c05_fold2_fallback_merge_swapped, 1, 3, 0, 0, 0, true);
fold2_harness!(c05_fold2_cond_then_uncond, 1, 3, 0, 0, 1, false);
// rank tie: ids decide (b before a)
fold2_harness!(c05_fold2_tie_by_id, 1, 3, 0, 0, 2, true);
// reset / stop
fold2_harness!(c05_fold2_reset_on_last, 1, 3, 0, 1, 0, false);
fold2_harness!(c05_fold2_stop_on_first, 1, 3, 2, 0, 0, false);
fold2_harness!(c05_fold2_reset_and_stop_on_first, 3, 1, 3, 0, 0, false);
// log overrides, conditional over unconditional
fold2_harness!(c05_fold2_log_fallback, 4, 6, 0, 0, 0, false);
fold2_harness!(c05_fold2_status_and_log, 5, 7, 0, 0, 0, true);
fold2_harness!(c05_fold2_cond_cond, 3, 3, 0, 0, 0, false);

/// The model used above equals the real Action::from_route_rule on a single rule, observed through
/// the use-time API (status code, log decision, applied rule ids) and the reset/stop flags.
#[kani::proof]
#[kani::unwind(6)]
#[kani::stub(std::mem::swap, typed_swap)]
#[kani::stub(std::sync::Arc::drop_slow, arc_drop_slow_unreachable)]
#[kani::stub(redirectionio::router::Route::capture, capture_nothing)]
#[kani::stub(redirectionio::api::Rule::variables, variables_nothing)]
fn c05_from_route_rule_matches_model() {
    let flags: u8 = kani::any();
    kani::assume(flags < 4);
    let r = sym_rule(b'a', 7, 7, 0);
    let r = R { reset: flags & 1 != 0, stop: flags & 2 != 0, ..r };
    let rt = route(&r);
    std::mem::forget(rt.clone());
    std::mem::forget(rt.clone());
    let req = request_with(Vec::new());
    let (real, reset, stop, unit) = Action::from_route_rule(rt.clone(), &req);
    let (model, mreset, mstop, munit) = from_route_rule_model(rt, &req);
    assert!(reset == mreset && stop == mstop && unit.is_none() && munit.is_none());
    let c: u16 = kani::any();
    kani::assume(c == 0 || c == 200 || c == 404 || c == 500);
    let allow: bool = kani::any();
    match (real, model) {
        (Some(mut a), Some(mut m)) => {
            assert!(a.get_status_code(c, None) == m.get_status_code(c, None));
            assert!(a.should_log_request(allow, c, None) == m.should_log_request(allow, c, None));
            assert!(a.get_applied_rule_ids().len() == m.get_applied_rule_ids().len());
            std::mem::forget(a);
            std::mem::forget(m);
        }
        _ => assert!(false),
    }
    kani::cover!(reset && stop);
    std::mem::forget(req);
}
