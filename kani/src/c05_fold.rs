//! C05 harness B / C11 harness B: the real Action::from_routes_rule (sort + merge + reset + stop) and
//! the response-code guards evaluated at use time, against a reference fold written over plain
//! arrays.  Two or three rules with concrete shapes (which rule has a status code / a response-code
//! list / a log override) and symbolic ranks, status codes, listed codes, exclude/reset/stop flags.
use crate::util::*;
use redirectionio::action::Action;
use redirectionio::api::Rule;
use redirectionio::marker::StaticOrDynamic;
use redirectionio::router::Route;
use std::sync::Arc;

#[derive(Clone, Copy)]
pub struct R {
    pub id: u8,            // one ASCII byte
    pub rank: u16,
    pub status: Option<u16>, // rule.status_code
    pub code: Option<u16>, // single listed response code (None = unconditional)
    pub exclude: bool,
    pub reset: bool,
    pub stop: bool,
    pub log: Option<bool>,
}

fn route(r: &R) -> Arc<Route<Rule>> {
    let mut src = empty_source();
    src.response_status_codes = match r.code {
        None => None,
        Some(c) => Some(vec![c]),
    };
    src.exclude_response_status_codes = if r.exclude { Some(true) } else { None };
    let rule = Rule {
        id: s1(r.id),
        source: src,
        target: None,
        status_code: r.status,
        rank: r.rank,
        markers: Vec::new(),
        variables: Vec::new(),
        body_filters: None,
        header_filters: None,
        log_override: r.log,
        reset: if r.reset { Some(true) } else { None },
        stop: if r.stop { Some(true) } else { None },
        examples: None,
        redirect_unit_id: None,
        configuration_log_unit_id: None,
        configuration_reset_unit_id: None,
        target_hash: None,
    };
    Arc::new(Route::new(
        None,
        None,
        None,
        None,
        StaticOrDynamic::Static(String::from("/")),
        Vec::new(),
        None,
        None,
        None,
        None,
        s1(r.id),
        0 - r.rank as i64,
        rule,
    ))
}

/// does the rule's response-status condition admit code c?  (no list: yes, i.e. unconditional)
fn admits(r: &R, c: u16) -> bool {
    match r.code {
        None => true,
        Some(l) => (l == c) != r.exclude,
    }
}

#[derive(Clone, Copy)]
struct St {
    status: u16,
    id: u8,
    code: Option<u16>,
    exclude: bool,
    fb_status: u16,
    fb_id: u8, // 0 = none
}

#[derive(Clone, Copy)]
struct Lg {
    log: bool,
    id: u8,
    code: Option<u16>,
    exclude: bool,
    fb: Option<bool>,
    fb_id: u8,
}

/// Reference: rules applied by (rank desc, id desc); reset replaces, stop ends the fold; a new status
/// replaces the old one, except that an old *unconditional* status stays as fallback of a new
/// *conditional* one.  Returns (status for c, applied id for status, log decision for c).
pub fn reference<const N: usize>(rs: &[R; N], c: u16, allow_log: bool) -> (u16, u8, bool, [bool; N]) {
    // order
    let mut idx = [0usize; N];
    let mut i = 0;
    while i < N {
        idx[i] = i;
        i += 1;
    }
    // insertion sort by (rank desc, id desc)
    let mut i = 1;
    while i < N {
        let mut j = i;
        while j > 0 {
            let (a, b) = (&rs[idx[j - 1]], &rs[idx[j]]);
            let before = a.rank > b.rank || (a.rank == b.rank && a.id > b.id);
            if before {
                break;
            }
            idx.swap(j - 1, j);
            j -= 1;
        }
        i += 1;
    }
    let mut st: Option<St> = None;
    let mut lg: Option<Lg> = None;
    let mut contributes = [false; N];
    let mut k = 0;
    while k < N {
        let r = &rs[idx[k]];
        if r.reset {
            st = None;
            lg = None;
            contributes = [false; N];
        }
        contributes[idx[k]] = true;
        let rstat = match r.status {
            Some(s) if s != 0 => Some(s),
            _ => None,
        };
        if let Some(s) = rstat {
            st = Some(match st {
                Some(old) if old.code.is_none() && r.code.is_some() => {
                    St { status: s, id: r.id, code: r.code, exclude: r.exclude, fb_status: old.status, fb_id: old.id }
                }
                _ => St { status: s, id: r.id, code: r.code, exclude: r.exclude, fb_status: 0, fb_id: 0 },
            });
        }
        if let Some(l) = r.log {
            lg = Some(match lg {
                Some(old) if old.code.is_none() && r.code.is_some() => {
                    Lg { log: l, id: r.id, code: r.code, exclude: r.exclude, fb: Some(old.log), fb_id: old.id }
                }
                _ => Lg { log: l, id: r.id, code: r.code, exclude: r.exclude, fb: None, fb_id: 0 },
            });
        }
        if r.stop {
            break;
        }
        k += 1;
    }
    let (status, sid) = match st {
        None => (0, 0),
        Some(s) => {
            let adm = match s.code {
                None => c == 0,
                Some(l) => (l == c) != s.exclude,
            };
            if adm {
                (s.status, s.id)
            } else if c != 0 {
                (s.fb_status, s.fb_id)
            } else {
                (0, 0)
            }
        }
    };
    let log = match lg {
        None => allow_log,
        Some(l) => {
            let adm = match l.code {
                None => true,
                Some(x) => (x == c) != l.exclude,
            };
            if adm {
                l.log
            } else {
                match l.fb {
                    Some(b) => b,
                    None => allow_log,
                }
            }
        }
    };
    (status, sid, log, contributes)
}

fn sym_rule(id: u8, has_status: bool, has_code: bool, has_log: bool) -> R {
    let status: u16 = kani::any();
    let code: u16 = kani::any();
    let log: bool = kani::any();
    kani::assume(status >= 300 && status < 310);
    kani::assume(code == 200 || code == 404 || code == 0);
    R {
        id,
        rank: kani::any(),
        status: if has_status { Some(status) } else { None },
        code: if has_code { Some(code) } else { None },
        exclude: if has_code { kani::any() } else { false },
        reset: kani::any(),
        stop: kani::any(),
        log: if has_log { Some(log) } else { None },
    }
}

pub fn observe(routes: Vec<Arc<Route<Rule>>>, c: u16, allow_log: bool) -> (u16, bool, Action) {
    let req = request_with(Vec::new());
    let mut action = Action::from_routes_rule(routes, &req, None);
    let status = action.get_status_code(c, None);
    let log = action.should_log_request(allow_log, c, None);
    std::mem::forget(req);
    (status, log, action)
}

/// shape bits per rule: 1 = has status, 2 = has response-code list, 4 = has log override
fn fold2<const S0: u8, const S1: u8>() {
    let rs = [
        sym_rule(b'a', S0 & 1 != 0, S0 & 2 != 0, S0 & 4 != 0),
        sym_rule(b'b', S1 & 1 != 0, S1 & 2 != 0, S1 & 4 != 0),
    ];
    let c: u16 = kani::any();
    kani::assume(c == 0 || c == 200 || c == 404 || c == 500);
    let allow_log: bool = kani::any();
    // the order in which matched rules are handed over must not matter (C11)
    let swap: bool = kani::any();
    let routes = if swap { vec![route(&rs[1]), route(&rs[0])] } else { vec![route(&rs[0]), route(&rs[1])] };
    let (status, log, action) = observe(routes, c, allow_log);
    let (want_status, want_id, want_log, _contrib) = reference(&rs, c, allow_log);
    assert!(status == want_status);
    assert!(log == want_log);
    // the rule credited for the status code is reported as applied
    if want_id != 0 {
        let applied = action.get_applied_rule_ids();
        let mut found = false;
        for id in applied.iter() {
            if id.as_bytes()[0] == want_id {
                found = true;
            }
        }
        assert!(found);
    }
    kani::cover!(status != 0 && rs[0].rank == rs[1].rank);
    kani::cover!(rs[0].reset && rs[0].stop);
    kani::cover!(swap && status != 0);
    std::mem::forget(action);
}

macro_rules! fold2_harness {
    ($name:ident, $s0:expr, $s1:expr) => {
        #[kani::proof]
        #[kani::unwind(6)]
        #[kani::stub(std::mem::swap, typed_swap)]
        fn $name() {
            fold2::<$s0, $s1>();
        }
    };
}

// unconditional status + conditional status (the fallback merge), with log overrides
fold2_harness!(c05_fold2_uncond_cond, 1, 3);
fold2_harness!(c05_fold2_cond_cond, 3, 3);
fold2_harness!(c05_fold2_uncond_uncond, 1, 1);
fold2_harness!(c05_fold2_log_uncond_cond, 4, 6);
fold2_harness!(c05_fold2_status_log_mixed, 5, 7);
