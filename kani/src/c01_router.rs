//! C01 / C02 / C17 (router level): the real Router (SchemeMatcher > HostMatcher > IpMatcher >
//! MethodMatcher > HeaderMatcher > DateTimeMatcher > PathAndQueryMatcher) built from two concrete
//! route specifications, probed with a request whose scheme, host, method, path (fixed lengths,
//! symbolic ASCII contents) and client IPv4 address are symbolic.  Result ids are compared with the
//! conjunction of the per-trigger predicates evaluated by a reference written over plain data.
//! HashMap/HashSet/BTreeMap/BTreeSet are the Vec-backed models of /repo/src/verif_shim (cfg(kani)).
use crate::util::*;
use redirectionio::http::{Header, Request};
use redirectionio::marker::StaticOrDynamic;
use redirectionio::router::{Route, RouteHeader, RouteHeaderKind, RouteIp, Router};
use redirectionio::verif_shim::map::HashSet;
use redirectionio::RouterConfig;
use std::net::{IpAddr, Ipv4Addr};

#[derive(Clone, Copy)]
pub struct Spec {
    pub scheme: Option<&'static str>,
    pub host: Option<&'static str>,
    pub methods: Option<&'static [&'static str]>,
    pub exclude_methods: bool,
    /// (network, prefix length, not_in)
    pub ip: Option<(u32, u8, bool)>,
    /// header "x": 0 = is defined, 1 = is not defined
    pub header: Option<u8>,
    pub path: &'static str,
}

pub const ANY: Spec = Spec { scheme: None, host: None, methods: None, exclude_methods: false, ip: None, header: None, path: "/a" };

pub fn config(always_match_any_host: bool) -> RouterConfig {
    RouterConfig {
        ignore_host_case: false,
        ignore_header_case: false,
        ignore_path_and_query_case: false,
        ignore_marketing_query_params: false,
        marketing_query_params: HashSet::new(),
        pass_marketing_query_params_to_target: false,
        always_match_any_host,
    }
}

pub fn route(id: u8, s: &Spec) -> Route<u8> {
    let methods = match s.methods {
        None => None,
        Some(ms) => {
            let mut v = Vec::with_capacity(ms.len());
            let mut i = 0;
            while i < ms.len() {
                v.push(String::from(ms[i]));
                i += 1;
            }
            Some(v)
        }
    };
    let ips = match s.ip {
        None => None,
        Some((net, len, not_in)) => {
            let cidr = match cidr::Ipv4Cidr::new(Ipv4Addr::from(net), len) {
                Ok(c) => cidr::AnyIpCidr::V4(c),
                Err(_) => {
                    assert!(false);
                    unreachable!()
                }
            };
            Some(vec![if not_in { RouteIp::NotInRange(cidr) } else { RouteIp::InRange(cidr) }])
        }
    };
    let headers = match s.header {
        None => Vec::new(),
        Some(k) => vec![RouteHeader {
            kind: if k == 0 { RouteHeaderKind::IsDefined } else { RouteHeaderKind::IsNotDefined },
            name: String::from("x"),
        }],
    };
    Route::new(
        methods,
        if s.exclude_methods { Some(true) } else { None },
        s.scheme.map(String::from),
        s.host.map(|h| StaticOrDynamic::Static(String::from(h))),
        StaticOrDynamic::Static(String::from(s.path)),
        headers,
        ips,
        None,
        None,
        None,
        s1(b'0' + id),
        0,
        id,
    )
}

pub struct Probe {
    pub scheme: [u8; 4],
    pub host: [u8; 1],
    pub method: [u8; 3],
    pub path: [u8; 2],
    pub ip: u32,
    pub has_x: bool,
}

pub fn sym_probe() -> Probe {
    let scheme = ascii_bytes::<4>();
    let host = ascii_bytes::<1>();
    let method = ascii_bytes::<3>();
    let path = ascii_bytes::<2>();
    // keep the request inside the interesting region: each field either equals a menu value or differs in one byte
    kani::assume(scheme[0] == b'h' && scheme[1] == b't' && scheme[2] == b't');
    kani::assume(method[1] == b'E' || method[1] == b'U');
    kani::assume(path[0] == b'/');
    Probe { scheme, host, method, path, ip: kani::any(), has_x: kani::any() }
}

pub fn request_of(p: &Probe) -> Request {
    let headers = if p.has_x { vec![Header { name: String::from("X"), value: String::from("1") }] } else { Vec::new() };
    let mut r = request_with(headers);
    let path = string_of(&p.path);
    r.path_and_query_skipped.path_and_query = path.clone();
    r.path_and_query_skipped.path_and_query_matching = Some(path.clone());
    r.path_and_query_skipped.original = path.clone();
    r.path_and_query = Some(path);
    r.host = Some(string_of(&p.host));
    r.scheme = Some(string_of(&p.scheme));
    r.method = Some(string_of(&p.method));
    r.remote_addr = Some(IpAddr::V4(Ipv4Addr::from(p.ip)));
    r
}

fn eq(a: &[u8], b: &str) -> bool {
    let b = b.as_bytes();
    if a.len() != b.len() {
        return false;
    }
    let mut i = 0;
    while i < a.len() {
        if a[i] != b[i] {
            return false;
        }
        i += 1;
    }
    true
}

/// per-trigger predicates except the host / any-host policy
fn sat_no_host(s: &Spec, p: &Probe) -> bool {
    let scheme_ok = match s.scheme {
        None => true,
        Some(x) => eq(&p.scheme, x),
    };
    let method_ok = match s.methods {
        None => true,
        Some(ms) => {
            let mut listed = false;
            let mut i = 0;
            while i < ms.len() {
                if eq(&p.method, ms[i]) {
                    listed = true;
                }
                i += 1;
            }
            listed != s.exclude_methods
        }
    };
    let ip_ok = match s.ip {
        None => true,
        Some((net, len, not_in)) => {
            let mask: u32 = if len == 0 { 0 } else { u32::MAX << (32 - len as u32) };
            ((p.ip & mask) == net) != not_in
        }
    };
    let header_ok = match s.header {
        None => true,
        Some(k) => p.has_x == (k == 0),
    };
    scheme_ok && method_ok && ip_ok && header_ok && eq(&p.path, s.path)
}

/// Reference: exactly the rules whose every trigger is satisfied; rules without host follow the
/// any-host policy *within their scheme scope* (any-scheme rules and scheme-specific rules are
/// scoped separately).
pub fn expected<const N: usize>(specs: &[Spec; N], p: &Probe, always_any_host: bool) -> [bool; N] {
    let mut out = [false; N];
    // host-specific matches per scope
    let mut k = 0;
    while k < N {
        if let Some(h) = specs[k].host {
            out[k] = eq(&p.host, h) && sat_no_host(&specs[k], p);
        }
        k += 1;
    }
    let mut k = 0;
    while k < N {
        if specs[k].host.is_none() {
            let mut blocked = false;
            if !always_any_host {
                let mut j = 0;
                while j < N {
                    let same_scope = match (specs[j].scheme, specs[k].scheme) {
                        (None, None) => true,
                        (Some(a), Some(b)) => eq(a.as_bytes(), b),
                        _ => false,
                    };
                    if specs[j].host.is_some() && same_scope && out[j] {
                        blocked = true;
                    }
                    j += 1;
                }
            }
            out[k] = !blocked && sat_no_host(&specs[k], p);
        }
        k += 1;
    }
    out
}

pub fn ids_of(found: &Vec<std::sync::Arc<Route<u8>>>) -> [u8; 4] {
    let mut seen = [0u8; 4];
    let mut i = 0;
    while i < found.len() {
        let v = *found[i].handler() as usize;
        assert!(v < 4);
        seen[v] += 1;
        i += 1;
    }
    seen
}

pub fn build<const N: usize>(specs: &[Spec; N], always_any_host: bool) -> Router<u8> {
    let mut r: Router<u8> = Router::from_config(config(always_any_host));
    let mut k = 0;
    while k < N {
        r.insert_route(route(k as u8, &specs[k]));
        k += 1;
    }
    r
}

fn match_exact<const N: usize>(specs: [Spec; N], always_any_host: bool) {
    let router = build(&specs, always_any_host);
    assert!(router.len() == N);
    let p = sym_probe();
    let req = request_of(&p);
    let found = router.match_request(&req);
    let seen = ids_of(&found);
    let want = expected(&specs, &p, always_any_host);
    let mut any = false;
    let mut k = 0;
    while k < N {
        assert!(seen[k] == want[k] as u8);
        any = any || want[k];
        k += 1;
    }
    kani::cover!(any);
    kani::cover!(!any);
    std::mem::forget(found);
    std::mem::forget(req);
    std::mem::forget(router);
}

macro_rules! router_harness {
    ($name:ident, $specs:expr, $any:expr) => {
        #[kani::proof]
        #[kani::unwind(8)]
        #[kani::stub(std::mem::swap, typed_swap)]
        #[kani::stub(str::to_lowercase, ascii_lowercase_model)]
        #[kani::stub(std::sync::Arc::drop_slow, arc_drop_slow_unreachable)]
        fn $name() {
            match_exact($specs, $any);
        }
    };
}

const GET: &[&str] = &["GET"];
const GET_PUT: &[&str] = &["GET", "PUT"];

// scheme + host scoping and the any-host fallback
router_harness!(
    c01_router_host_fallback,
    [Spec { host: Some("a"), ..ANY }, Spec { ..ANY }],
    false
);
router_harness!(
    c01_router_host_always,
    [Spec { host: Some("a"), ..ANY }, Spec { ..ANY }],
    true
);
router_harness!(
    c01_router_scheme_scopes,
    [Spec { scheme: Some("http"), host: Some("a"), ..ANY }, Spec { ..ANY }],
    false
);
// methods: list vs exclusion
router_harness!(
    c01_router_methods,
    [Spec { methods: Some(GET_PUT), ..ANY }, Spec { methods: Some(GET), exclude_methods: true, ..ANY }],
    true
);
// ip ranges and header conditions
router_harness!(
    c01_router_ip_header,
    [Spec { ip: Some((0x0a00_0000, 8, false)), header: Some(0), ..ANY }, Spec { ip: Some((0x0a00_0000, 8, true)), header: Some(1), ..ANY }],
    true
);
// two paths, same triggers
router_harness!(c01_router_paths, [Spec { path: "/a", ..ANY }, Spec { path: "/b", ..ANY }], true);

// ------------------------------------------------------------------------------------------------
// C02: incremental updates == rebuild (the reference `expected` over the live specs IS the rebuilt
// router's answer by C01), size == #live, remove returns the rule, clones are isolated.
#[derive(Clone, Copy)]
pub enum Upd {
    /// remove(id k)
    Remove(usize),
    /// batch_remove({k})
    BatchRemove(usize),
    /// remove(id k) then insert it again
    RemoveInsert(usize),
    /// clone, remove k from the clone: the original still answers for all rules
    CloneRemove(usize),
}

fn update_equiv<const N: usize>(specs: [Spec; N], always_any_host: bool, upd: Upd) {
    let mut router = build(&specs, always_any_host);
    let mut live = [true; N];
    let p = sym_probe();
    let req = request_of(&p);
    match upd {
        Upd::Remove(k) => {
            let removed = router.remove(IDS[k]);
            match removed {
                Some(r) => assert!(*r.handler() == k as u8),
                None => assert!(false),
            }
            assert!(router.remove(IDS[k]).is_none());
            live[k] = false;
        }
        Upd::BatchRemove(k) => {
            let mut ids = HashSet::new();
            ids.insert(String::from(IDS[k]));
            router.batch_remove(&ids);
            live[k] = false;
        }
        Upd::RemoveInsert(k) => {
            assert!(router.remove(IDS[k]).is_some());
            router.insert_route(route(k as u8, &specs[k]));
        }
        Upd::CloneRemove(k) => {
            let mut c = router.clone();
            assert!(c.remove(IDS[k]).is_some());
            assert!(c.len() == N - 1);
            std::mem::forget(c);
        }
    }
    let mut nlive = 0;
    let mut k = 0;
    while k < N {
        if live[k] {
            nlive += 1;
        }
        k += 1;
    }
    assert!(router.len() == nlive);
    // the answer of the updated router == the answer for the live rule set
    let mut live_specs = specs;
    let mut k = 0;
    while k < N {
        if !live[k] {
            // a rule that can never match (path no request of the bound has)
            live_specs[k] = Spec { path: "/!!", ..ANY };
        }
        k += 1;
    }
    let want = expected(&live_specs, &p, always_any_host);
    let found = router.match_request(&req);
    let seen = ids_of(&found);
    let mut k = 0;
    while k < N {
        assert!(seen[k] == (live[k] && want[k]) as u8);
        assert!(router.get_route_by_id(IDS[k]).is_some() == live[k]);
        k += 1;
    }
    kani::cover!(seen[0] == 1 || seen[1] == 1);
    std::mem::forget(found);
    std::mem::forget(req);
    std::mem::forget(router);
}

const IDS: [&str; 4] = ["0", "1", "2", "3"];

macro_rules! update_harness {
    ($name:ident, $specs:expr, $any:expr, $upd:expr) => {
        #[kani::proof]
        #[kani::unwind(8)]
        #[kani::stub(std::mem::swap, typed_swap)]
        #[kani::stub(str::to_lowercase, ascii_lowercase_model)]
        #[kani::stub(std::sync::Arc::drop_slow, arc_drop_slow_unreachable)]
        fn $name() {
            update_equiv($specs, $any, $upd);
        }
    };
}

update_harness!(
    c02_router_remove_multi_method,
    [Spec { methods: Some(GET_PUT), ..ANY }, Spec { methods: Some(GET), exclude_methods: true, ..ANY }],
    true,
    Upd::Remove(0)
);
update_harness!(
    c02_router_remove_host_rule,
    [Spec { host: Some("a"), ..ANY }, Spec { ..ANY }],
    false,
    Upd::Remove(0)
);
update_harness!(
    c02_router_batch_remove_ip_rule,
    [Spec { ip: Some((0x0a00_0000, 8, false)), header: Some(0), ..ANY }, Spec { ip: Some((0x0a00_0000, 8, true)), header: Some(1), ..ANY }],
    true,
    Upd::BatchRemove(1)
);
update_harness!(c02_router_remove_insert, [Spec { scheme: Some("http"), host: Some("a"), ..ANY }, Spec { ..ANY }], false, Upd::RemoveInsert(0));
update_harness!(c02_router_clone_isolated, [Spec { path: "/a", ..ANY }, Spec { path: "/b", ..ANY }], true, Upd::CloneRemove(1));
