//! C11 harness A: the order on rules is a total order: rank descending, then id descending.
use crate::util::*;
use redirectionio::api::{Rule, Source};
use std::cmp::Ordering;

pub fn rule(id: String, rank: u16) -> Rule {
    Rule {
        id,
        source: empty_source(),
        target: None,
        status_code: None,
        rank,
        markers: Vec::new(),
        variables: Vec::new(),
        body_filters: None,
        header_filters: None,
        log_override: None,
        reset: None,
        stop: None,
        examples: None,
        redirect_unit_id: None,
        configuration_log_unit_id: None,
        configuration_reset_unit_id: None,
        target_hash: None,
    }
}

fn ref_cmp(ra: u16, ia: &[u8; 2], rb: u16, ib: &[u8; 2]) -> Ordering {
    // (rank desc, id desc): a sorts before b iff a has the larger rank, ties by the larger id
    if ra != rb {
        return if ra > rb { Ordering::Less } else { Ordering::Greater };
    }
    if ia[0] != ib[0] {
        return if ia[0] > ib[0] { Ordering::Less } else { Ordering::Greater };
    }
    if ia[1] != ib[1] {
        return if ia[1] > ib[1] { Ordering::Less } else { Ordering::Greater };
    }
    Ordering::Equal
}

// `str::to_lowercase` is not called by the order today; the stub only keeps the harness decidable if
// a change starts case-folding the ids (std's version yields a String of symbolic length: the
// seeded change C11-m1 made this harness time out instead of failing).
#[kani::proof]
#[kani::unwind(4)]
#[kani::stub(str::to_lowercase, ascii_lowercase_model)]
fn c11_rule_order_total() {
    let ia = ascii_bytes::<2>();
    let ib = ascii_bytes::<2>();
    let ic = ascii_bytes::<2>();
    let (ra, rb, rc): (u16, u16, u16) = (kani::any(), kani::any(), kani::any());
    let a = rule(string_of(&ia), ra);
    let b = rule(string_of(&ib), rb);
    let c = rule(string_of(&ic), rc);
    let ab = a.cmp(&b);
    let ba = b.cmp(&a);
    let bc = b.cmp(&c);
    let ac = a.cmp(&c);
    // equals the reference
    assert!(ab == ref_cmp(ra, &ia, rb, &ib));
    // antisymmetric, consistent with eq and partial_cmp
    assert!(ab == ba.reverse());
    assert!((ab == Ordering::Equal) == (a == b));
    assert!(a.partial_cmp(&b) == Some(ab));
    // transitive
    if ab != Ordering::Greater && bc != Ordering::Greater {
        assert!(ac != Ordering::Greater);
    }
    if ab == Ordering::Less && bc != Ordering::Greater {
        assert!(ac == Ordering::Less);
    }
    kani::cover!(ra == rb && ab == Ordering::Less);
    kani::cover!(ab == Ordering::Equal);
    std::mem::forget(a);
    std::mem::forget(b);
    std::mem::forget(c);
}
