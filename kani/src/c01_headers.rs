//! C01 (part): header trigger predicates.  ValueCondition::match_value on a Request literal with two
//! header lines whose 1-byte names come from four concrete configurations over {x, X, y}
//! (case-insensitive name comparison) and whose 2-byte values are symbolic ASCII: existence is case-insensitive on the name; equals /
//! contains / starts / ends are any-of over duplicate header lines; the negated kinds are all-of.
use crate::util::*;
use redirectionio::http::Header;
use redirectionio::router::request_matcher::HeaderValueCondition as VC;


/// kind: 0 defined, 1 not defined, 2 equals, 3 not equal, 6 ends with, 7 starts with.
/// OPN = operand length (1 or 2).  Header NAMES are concrete per configuration (they decide which
/// lines are selected, i.e. the length of the Vec the code builds; symbolic names cost 9 min per
/// harness), values and operand are symbolic ASCII.
fn check_cfg<const KIND: u8, const OPN: usize>(hn: [u8; 2], qn: u8) {
    let v0 = ascii_bytes::<2>();
    let v1 = ascii_bytes::<2>();
    let op = ascii_bytes::<OPN>();
    let req = request_with(vec![
        Header { name: s1(hn[0]), value: string_of(&v0) },
        Header { name: s1(hn[1]), value: string_of(&v1) },
    ]);
    let cond = match KIND {
        0 => VC::IsDefined,
        1 => VC::IsNotDefined,
        2 => VC::IsEquals(string_of(&op)),
        3 => VC::IsNotEqualTo(string_of(&op)),
        6 => VC::EndsWith(string_of(&op)),
        _ => VC::StartsWith(string_of(&op)),
    };
    let name = s1(qn);
    let got = cond.match_value(&req, name.as_str());

    // reference
    let sel = [lc(hn[0]) == lc(qn), lc(hn[1]) == lc(qn)];
    let vals = [v0, v1];
    let test = |v: &[u8; 2]| -> bool {
        match KIND {
            2 | 3 => OPN == 2 && v[0] == op[0] && v[1] == op[OPN - 1],
            6 => {
                if OPN == 1 {
                    v[1] == op[0]
                } else {
                    v[0] == op[0] && v[1] == op[OPN - 1]
                }
            }
            _ => {
                if OPN == 1 {
                    v[0] == op[0]
                } else {
                    v[0] == op[0] && v[1] == op[OPN - 1]
                }
            }
        }
    };
    let any = (sel[0] && test(&vals[0])) || (sel[1] && test(&vals[1]));
    let want = match KIND {
        0 => sel[0] || sel[1],
        1 => !(sel[0] || sel[1]),
        2 | 6 | 7 => any,
        _ => !any,
    };
    assert!(got == want);
    std::mem::forget(req);
    std::mem::forget(cond);
    std::mem::forget(name);
}

fn check<const KIND: u8, const OPN: usize>() {
    // duplicate lines in mixed case, queried in either case; one line; none
    check_cfg::<KIND, OPN>([b'x', b'X'], b'x');
    check_cfg::<KIND, OPN>([b'X', b'y'], b'x');
    check_cfg::<KIND, OPN>([b'y', b'x'], b'X');
    check_cfg::<KIND, OPN>([b'y', b'y'], b'x');
    kani::cover!(true);
}

macro_rules! hc {
    ($name:ident, $kind:expr, $opn:expr) => {
        #[kani::proof]
        #[kani::unwind(8)]
        #[kani::stub(str::to_lowercase, ascii_lowercase_model)]
        fn $name() {
            check::<$kind, $opn>();
        }
    };
}

hc!(c01_header_defined, 0, 1);
hc!(c01_header_not_defined, 1, 1);
hc!(c01_header_equals, 2, 2);
hc!(c01_header_not_equal, 3, 2);
hc!(c01_header_ends_with_1, 6, 1);
hc!(c01_header_starts_with_1, 7, 1);
hc!(c01_header_starts_with_2, 7, 2);
