//! C01 / C02 / C17 on single matcher layers (the whole Router does not fit, DESIGN §3.3): the real
//! PathAndQueryMatcher / MethodMatcher built from two concrete routes, probed with a request whose
//! path / method bytes are symbolic; insert, remove, batch_remove, match_request, trace, len.
use crate::c01_router::*;
use crate::util::*;
use redirectionio::router::{MethodMatcher, PathAndQueryMatcher, Route, Trace};
use redirectionio::verif_shim::map::HashSet;
use std::sync::Arc;

const IDS: [&str; 4] = ["0", "1", "2", "3"];

fn arc_route(k: usize, s: &Spec) -> Arc<Route<u8>> {
    Arc::new(route(k as u8, s))
}

fn probe_path_method() -> Probe {
    let path = ascii_bytes::<2>();
    let method = ascii_bytes::<3>();
    kani::assume(path[0] == b'/');
    kani::assume(method[1] == b'E' || method[1] == b'U');
    Probe { scheme: *b"http", host: *b"a", method, path, ip: 0, has_x: false }
}

#[derive(Clone, Copy)]
pub enum LOp {
    None,
    Remove(usize),
    BatchRemove(usize),
    RemoveInsert(usize),
}

/// Lowest layer: static path buckets.
fn path_layer(specs: [Spec; 2], op: LOp) {
    let cfg = Arc::new(config(true));
    let mut m: PathAndQueryMatcher<u8> = PathAndQueryMatcher::new(cfg.clone());
    let routes = [arc_route(0, &specs[0]), arc_route(1, &specs[1])];
    // the harness keeps one reference per route, as the router's id index does
    m.insert(routes[0].clone());
    m.insert(routes[1].clone());
    assert!(m.len() == 2);
    let mut live = [true, true];
    match op {
        LOp::None => {}
        LOp::Remove(k) => {
            match m.remove(IDS[k]) {
                Some(r) => assert!(*r.handler() == k as u8),
                None => assert!(false),
            }
            live[k] = false;
        }
        LOp::BatchRemove(k) => {
            let mut ids = HashSet::new();
            ids.insert(String::from(IDS[k]));
            m.batch_remove(&ids);
            live[k] = false;
        }
        LOp::RemoveInsert(k) => {
            assert!(m.remove(IDS[k]).is_some());
            m.insert(routes[k].clone());
        }
    }
    let p = probe_path_method();
    let req = request_of(&p);
    let found = m.match_request(&req);
    let seen = ids_of(&found);
    let mut k = 0;
    let mut any = false;
    while k < 2 {
        let want = live[k] && p.path[0] == specs[k].path.as_bytes()[0] && p.path[1] == specs[k].path.as_bytes()[1];
        assert!(seen[k] == want as u8);
        any = any || want;
        k += 1;
    }
    // the trace names exactly the routes that match (C17, this layer)
    let traces = m.trace(&req);
    let traced = Trace::get_routes_from_traces(&traces);
    let tseen = ids_of(&traced);
    let mut k = 0;
    while k < 2 {
        assert!(tseen[k] == seen[k]);
        k += 1;
    }
    kani::cover!(any);
    kani::cover!(!any);
    std::mem::forget(traced);
    std::mem::forget(traces);
    std::mem::forget(found);
    std::mem::forget(req);
    std::mem::forget(m);
    std::mem::forget(routes);
}

macro_rules! path_harness {
    ($name:ident, $specs:expr, $op:expr) => {
        #[kani::proof]
        #[kani::unwind(8)]
        #[kani::stub(std::mem::swap, typed_swap)]
        #[kani::stub(str::to_lowercase, ascii_lowercase_model)]
        #[kani::stub(std::sync::Arc::drop_slow, arc_drop_slow_unreachable)]
        fn $name() {
            path_layer($specs, $op);
        }
    };
}

path_harness!(c02_path_layer_match, [Spec { path: "/a", ..ANY }, Spec { path: "/b", ..ANY }], LOp::None);
path_harness!(c02_path_layer_same_path_remove, [Spec { path: "/a", ..ANY }, Spec { path: "/a", ..ANY }], LOp::Remove(0));
path_harness!(c02_path_layer_batch_remove, [Spec { path: "/a", ..ANY }, Spec { path: "/b", ..ANY }], LOp::BatchRemove(1));
