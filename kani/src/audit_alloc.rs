//! Native-replay only (cfg(all(kani, test)), i.e. `cargo kani playback`): a global allocator that
//! records the layout of every live allocation and aborts with a message when a block is released
//! or resized with a layout different from the one it was allocated with, or released twice.
//! This turns CBMC's memory-model verdicts (which do not panic natively) into an observable
//! native failure, so that such counterexamples can be confirmed against the real build as well.
use std::alloc::{GlobalAlloc, Layout, System};
use std::sync::atomic::{AtomicBool, Ordering};

// 1 M slots: symbolising a panic backtrace (addr2line) alone keeps > 65 k blocks live
const SLOTS: usize = 1 << 20;

pub struct Audit;

struct Table {
    ptr: [usize; SLOTS],
    size: [usize; SLOTS],
    align: [usize; SLOTS],
}

static LOCK: AtomicBool = AtomicBool::new(false);
/// set when a block could not be recorded (table full): "not live" can then no longer be told from "not recorded"
static OVERFLOW: AtomicBool = AtomicBool::new(false);
static mut TABLE: Table = Table { ptr: [0; SLOTS], size: [0; SLOTS], align: [0; SLOTS] };

fn lock() {
    while LOCK.compare_exchange_weak(false, true, Ordering::Acquire, Ordering::Relaxed).is_err() {
        std::hint::spin_loop();
    }
}
fn unlock() {
    LOCK.store(false, Ordering::Release);
}

fn die(msg: &str) -> ! {
    unsafe {
        libc_write(msg.as_bytes());
    }
    std::process::abort()
}

unsafe fn libc_write(b: &[u8]) {
    extern "C" {
        fn write(fd: i32, buf: *const u8, n: usize) -> isize;
    }
    write(2, b.as_ptr(), b.len());
}

const TOMB: usize = 1;

unsafe fn record(p: usize, l: Layout) {
    if p == 0 {
        return;
    }
    lock();
    let t = &mut *std::ptr::addr_of_mut!(TABLE);
    let mut i = (p >> 4) & (SLOTS - 1);
    let mut n = 0;
    while t.ptr[i] != 0 && t.ptr[i] != TOMB && n < SLOTS {
        i = (i + 1) & (SLOTS - 1);
        n += 1;
    }
    if n < SLOTS {
        t.ptr[i] = p;
        t.size[i] = l.size();
        t.align[i] = l.align();
    } else {
        OVERFLOW.store(true, Ordering::Relaxed);
    }
    unlock();
}

unsafe fn release(p: usize, l: Layout, what: &str) {
    lock();
    let t = &mut *std::ptr::addr_of_mut!(TABLE);
    let mut i = (p >> 4) & (SLOTS - 1);
    let mut n = 0;
    while t.ptr[i] != p && t.ptr[i] != 0 && n < SLOTS {
        i = (i + 1) & (SLOTS - 1);
        n += 1;
    }
    if t.ptr[i] != p {
        unlock();
        if OVERFLOW.load(Ordering::Relaxed) {
            return;
        }
        die("AUDIT-ALLOC: release of a block that is not live (double free or foreign pointer)\n");
    }
    let (s, a) = (t.size[i], t.align[i]);
    t.ptr[i] = TOMB;
    unlock();
    if s != l.size() || a != l.align() {
        libc_write(what.as_bytes());
        die(": AUDIT-ALLOC: layout mismatch: block released/resized with a layout different from its allocation\n");
    }
}

unsafe impl GlobalAlloc for Audit {
    unsafe fn alloc(&self, l: Layout) -> *mut u8 {
        let p = System.alloc(l);
        record(p as usize, l);
        p
    }
    unsafe fn alloc_zeroed(&self, l: Layout) -> *mut u8 {
        let p = System.alloc_zeroed(l);
        record(p as usize, l);
        p
    }
    unsafe fn dealloc(&self, p: *mut u8, l: Layout) {
        release(p as usize, l, "dealloc");
        System.dealloc(p, l)
    }
    unsafe fn realloc(&self, p: *mut u8, l: Layout, new_size: usize) -> *mut u8 {
        release(p as usize, l, "realloc");
        let q = System.realloc(p, l, new_size);
        if q.is_null() {
            record(p as usize, l);
        } else {
            record(q as usize, Layout::from_size_align_unchecked(new_size, l.align()));
        }
        q
    }
}
