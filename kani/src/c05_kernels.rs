//! C05 harness A: response-status guards of StatusCodeUpdate / LogOverride vs a reference.
use redirectionio::action::{StatusCodeUpdate, VerifLogOverride as LogOverride};

/// thorough: three listed codes (the third equal to any value), include mode and exclude mode
#[kani::proof]
#[kani::unwind(5)]
fn c05_status_code_update_3codes() {
    let sc: u16 = kani::any();
    let fb: u16 = kani::any();
    let (c0, c1, c2): (u16, u16, u16) = (kani::any(), kani::any(), kani::any());
    let excl: bool = kani::any();
    let u = StatusCodeUpdate {
        status_code: sc,
        on_response_status_codes: vec![c0, c1, c2],
        exclude_response_status_codes: excl,
        fallback_status_code: fb,
        rule_id: Some(String::from("r")),
        fallback_rule_id: Some(String::from("f")),
        unit_id: None,
        target_hash: None,
    };
    let r: u16 = kani::any();
    let (got, _) = u.get_status_code(r);
    let listed = c0 == r || c1 == r || c2 == r;
    let admits = listed != excl;
    let want = if admits { sc } else if r != 0 { fb } else { 0 };
    assert!(got == want);
    kani::cover!(admits && c2 == r && c0 != r && c1 != r);
    kani::cover!(!admits && r == 0);
    std::mem::forget(u);
}

fn codes() -> (u8, u16, u16, Vec<u16>) {
    let n: u8 = kani::any();
    kani::assume(n <= 2);
    let c0: u16 = kani::any();
    let c1: u16 = kani::any();
    let v = match n {
        0 => vec![],
        1 => vec![c0],
        _ => vec![c0, c1],
    };
    (n, c0, c1, v)
}

/// admitted(c) per the property: no condition -> decided at request time (c == 0) only,
/// except that an *exclude* rule with an empty list excludes nothing and so admits every code.
#[kani::proof]
#[kani::unwind(4)]
fn c05_status_code_update() {
    let sc: u16 = kani::any();
    let fb: u16 = kani::any();
    let (n, c0, c1, v) = codes();
    let excl: bool = kani::any();
    let u = StatusCodeUpdate {
        status_code: sc,
        on_response_status_codes: v,
        exclude_response_status_codes: excl,
        fallback_status_code: fb,
        rule_id: Some(String::from("r")),
        fallback_rule_id: Some(String::from("f")),
        unit_id: None,
        target_hash: None,
    };
    let r: u16 = kani::any();
    let (got, id) = u.get_status_code(r);
    let listed = (n >= 1 && c0 == r) || (n >= 2 && c1 == r);
    let admits = if n == 0 { r == 0 || excl } else { listed != excl };
    if admits {
        assert!(got == sc);
        assert!(id.map(|s| s.as_bytes()[0]) == Some(b'r'));
    } else if r != 0 {
        assert!(got == fb);
        assert!(id.map(|s| s.as_bytes()[0]) == Some(b'f'));
    } else {
        assert!(got == 0);
        assert!(id.is_none());
    }
    kani::cover!(admits && n == 2 && !excl);
    kani::cover!(!admits && r != 0);
    kani::cover!(!admits && r == 0);
    std::mem::forget(u);
}

#[kani::proof]
#[kani::unwind(4)]
fn c05_log_override() {
    let lo: bool = kani::any();
    let fb: Option<bool> = kani::any();
    let (n, c0, c1, v) = codes();
    let excl: bool = kani::any();
    let u = LogOverride {
        log_override: lo,
        rule_id: Some(String::from("r")),
        on_response_status_codes: v,
        exclude_response_status_codes: excl,
        fallback_log_override: fb,
        fallback_rule_id: Some(String::from("f")),
        unit_id: None,
    };
    let r: u16 = kani::any();
    let (got, id, applied) = u.get_log_override(r);
    let listed = (n >= 1 && c0 == r) || (n >= 2 && c1 == r);
    let admits = if n == 0 { true } else { listed != excl };
    if admits {
        assert!(got == Some(lo) && applied);
        assert!(id.as_ref().map(|s| s.as_bytes()[0]) == Some(b'r'));
    } else {
        assert!(got == fb && !applied);
        assert!(id.as_ref().map(|s| s.as_bytes()[0]) == Some(b'f'));
    }
    kani::cover!(admits && n == 2);
    kani::cover!(!admits);
    std::mem::forget(u);
    std::mem::forget(id);
}
