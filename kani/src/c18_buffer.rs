//! C18 (part) + C07: the FFI byte buffer keeps ownership/size contracts for every (len, capacity)
//! shape.  CBMC's memory model + Kani's dealloc-size assertion are the oracle.
use redirectionio::filter::buffer::{redirectionio_api_buffer_drop, Buffer};

fn vec_with<const CAP: usize, const LEN: usize>() -> (Vec<u8>, [u8; LEN]) {
    let b: [u8; LEN] = kani::any();
    let mut v = Vec::with_capacity(CAP);
    let mut i = 0;
    while i < LEN {
        v.push(b[i]);
        i += 1;
    }
    (v, b)
}

fn roundtrip<const CAP: usize, const LEN: usize>() {
    let (v, b) = vec_with::<CAP, LEN>();
    let buf = Buffer::from_vec(v);
    let back = buf.into_vec();
    assert!(back.len() == LEN);
    let mut i = 0;
    while i < LEN {
        assert!(back[i] == b[i]);
        i += 1;
    }
    // `back` is dropped here: dealloc size must equal alloc size
}

#[kani::proof]
#[kani::unwind(6)]
fn c18_buffer_roundtrip_cap_eq_len() {
    roundtrip::<1, 1>();
    roundtrip::<3, 3>();
}

#[kani::proof]
#[kani::unwind(6)]
fn c18_buffer_roundtrip_cap_gt_len() {
    roundtrip::<4, 2>();
    roundtrip::<4, 1>();
    roundtrip::<3, 0>();
}

fn dup<const CAP: usize, const LEN: usize>() {
    let (v, b) = vec_with::<CAP, LEN>();
    let buf = Buffer::from_vec(v);
    let d = buf.duplicate();
    let c = buf.clone();
    let x = d.into_vec();
    let y = c.into_vec();
    assert!(x.len() == LEN && y.len() == LEN);
    let mut i = 0;
    while i < LEN {
        assert!(x[i] == b[i] && y[i] == b[i]);
        i += 1;
    }
    redirectionio_api_buffer_drop(buf);
}

#[kani::proof]
#[kani::unwind(6)]
fn c18_buffer_duplicate() {
    dup::<2, 2>();
    dup::<4, 3>();
    dup::<2, 0>();
}

fn from_string<const CAP: usize, const LEN: usize>() {
    let b: [u8; LEN] = kani::any();
    let mut s = String::with_capacity(CAP);
    let mut i = 0;
    while i < LEN {
        kani::assume(b[i] < 128);
        s.push(b[i] as char);
        i += 1;
    }
    let buf = Buffer::from_string(s);
    let v = buf.to_vec();
    assert!(v.len() == LEN);
    let mut i = 0;
    while i < LEN {
        assert!(v[i] == b[i]);
        i += 1;
    }
    redirectionio_api_buffer_drop(buf);
}

#[kani::proof]
#[kani::unwind(6)]
fn c18_buffer_from_string() {
    from_string::<2, 2>();
    from_string::<4, 2>();
    from_string::<4, 0>();
}
