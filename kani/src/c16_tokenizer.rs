//! C16: the HTML tokenizer on byte strings `prefix ++ s` where `prefix` is a concrete byte string that
//! drives the tokenizer into one of its states and `s` ranges over ALL byte strings of a fixed small
//! length: never panics (Kani's built-in checks stay on), terminates within |input|+1 tokens, every
//! non-final token consumes at least one byte, the raw spans of the tokens are contiguous from offset 0
//! and stay inside the buffer (so raw spans + unread remainder reproduce the input exactly), data spans
//! stay inside the buffer.  Decided with CBMC's path-wise symbolic execution (`--paths lifo`): every
//! control-flow path is a separate SAT query, the read position stays concrete along a path.
//! Spans are read through the cfg(kani) accessor `Tokenizer::verif_spans`.
use redirectionio::html::{TokenType, Tokenizer};

/// An arbitrary byte.  (A harness-level case split that pins the byte to each constant the tokenizer
/// compares against was measured: it multiplies the paths by 17 per byte up front and is 20x slower
/// than letting path-wise symbolic execution fork lazily at the comparisons actually executed.)
fn sym_byte() -> u8 {
    kani::any()
}

/// An arbitrary byte, case-split up front: on every path on which it is one of the bytes the tag / attribute
/// states compare against it is that CONSTANT, so the re-reads after the tokenizer backs up (`raw.end -= 1`)
/// fork nothing; the last branch keeps every other value symbolic.  The split is exhaustive, so it restricts
/// nothing.  Pays off in the tag states only (in the data state it multiplies the paths by 14 for nothing).
fn sym_byte_pinned() -> u8 {
    let b: u8 = kani::any();
    macro_rules! pin {
        ($($c:expr),*) => { $( if b == $c { return $c; } )* };
    }
    pin!(b'>', b'/', b'=', b' ', b'\n', b'\r', b'\t', 0x0c, b'\'', b'"', b'<', b'!', b'-');
    b
}

/// `prefix ++ s` as the array the oracle reads and as the Vec the tokenizer owns
fn input<const S: usize, const N: usize>(prefix: &[u8], pinned: bool) -> ([u8; N], Vec<u8>) {
    let mut a = [0u8; N];
    let mut i = 0;
    while i < prefix.len() {
        a[i] = prefix[i];
        i += 1;
    }
    let mut j = 0;
    while j < S {
        a[prefix.len() + j] = if pinned { sym_byte_pinned() } else { sym_byte() };
        j += 1;
    }
    let mut v = Vec::with_capacity(N);
    i = 0;
    while i < N {
        v.push(a[i]);
        i += 1;
    }
    (a, v)
}

fn cont(b: u8) -> bool {
    b & 0xC0 == 0x80
}

/// Is `a` valid UTF-8?  Branch-free (`&`, `|` on bool) so that evaluating it forks no path:
/// ok[i] = some segmentation of a[..i] into well-formed 1/2/3/4-byte sequences (Unicode table 3-7).
fn valid_utf8<const N: usize>(a: &[u8; N]) -> bool {
    let mut ok = [false; 32];
    ok[0] = true;
    let mut i = 1;
    while i <= N {
        let b0 = a[i - 1];
        let mut v = ok[i - 1] & (b0 < 0x80);
        if i >= 2 {
            let (b0, b1) = (a[i - 2], a[i - 1]);
            v = v | (ok[i - 2] & (b0 >= 0xC2) & (b0 <= 0xDF) & cont(b1));
        }
        if i >= 3 {
            let (b0, b1, b2) = (a[i - 3], a[i - 2], a[i - 1]);
            let lead = (b0 >= 0xE0) & (b0 <= 0xEF);
            let second = cont(b1) & ((b0 != 0xE0) | (b1 >= 0xA0)) & ((b0 != 0xED) | (b1 <= 0x9F));
            v = v | (ok[i - 3] & lead & second & cont(b2));
        }
        if i >= 4 {
            let (b0, b1, b2, b3) = (a[i - 4], a[i - 3], a[i - 2], a[i - 1]);
            let lead = (b0 >= 0xF0) & (b0 <= 0xF4);
            let second = cont(b1) & ((b0 != 0xF0) | (b1 >= 0x90)) & ((b0 != 0xF4) | (b1 <= 0x8F));
            v = v | (ok[i - 4] & lead & second & cont(b2) & cont(b3));
        }
        ok[i] = v;
        i += 1;
    }
    ok[N]
}

/// offset `i` of `a` is a char boundary (given that `a` is valid UTF-8)
fn boundary<const N: usize>(a: &[u8; N], i: usize) -> bool {
    i >= N || !cont(a[i])
}

/// drive the tokenizer to the end of the input
fn drive<const N: usize>(mut t: Tokenizer, a: &[u8; N], accessors: bool) {
    let n = N;
    let valid = valid_utf8(a);
    let mut prev_end = 0usize;
    let mut finished = false;
    let mut k = 0;
    while k <= n {
        let r = t.next();
        let (rs, re, ds, de) = t.verif_spans();
        // lossless: the raw span of this token starts where the previous one ended
        assert!(rs == prev_end);
        assert!(rs <= re && re <= n);
        // the data span is a sub-range of the buffer (text()/tag_name() slice the buffer with it)
        assert!(ds <= de && de <= n);
        match r {
            Ok(TokenType::ErrorToken) => {
                finished = true;
                break;
            }
            Ok(ty) => {
                // progress: at most one token per input byte
                assert!(re > rs);
                // accessors succeed on valid UTF-8: String::from_utf8(buffer[ds..de]) succeeds iff both
                // ends are char boundaries of the (valid) buffer
                assert!(!valid | (boundary(a, ds) & boundary(a, de)));
                if accessors {
                    match ty {
                        TokenType::StartTagToken | TokenType::EndTagToken | TokenType::SelfClosingTagToken => {
                            let name = t.tag_name();
                            assert!(!valid | name.is_ok());
                            std::mem::forget(name);
                        }
                        _ => {}
                    }
                }
            }
            Err(_) => {
                finished = true;
                break;
            }
        }
        prev_end = re;
        k += 1;
    }
    // total: the end of the stream is reported after at most n tokens
    assert!(finished);
    // reachability witness: some input drives the tokenizer to its end-of-stream report (instance independent:
    // with an unterminated tag as prefix no token is ever produced, so `prev_end == n` is not)
    kani::cover!(finished);
    std::mem::forget(t);
}

fn lowercase_any_model(s: &str) -> String {
    // the property does not depend on the lower-cased content: same length, same bytes
    String::from(s)
}

macro_rules! tok {
    ($name:ident, $prefix:expr, $s:expr, $ctx:expr, $n:expr, $u:expr) => {
        #[kani::proof]
        #[kani::unwind($u)]
        fn $name() {
            let p: &[u8] = $prefix;
            let (a, v) = input::<$s, $n>(p, false);
            let t = if $ctx.is_empty() { Tokenizer::new(v) } else { Tokenizer::new_fragment(v, String::from($ctx)) };
            drive::<$n>(t, &a, false);
        }
    };
}

macro_rules! tok_pin {
    ($name:ident, $prefix:expr, $s:expr, $n:expr, $u:expr, $acc:expr) => {
        #[kani::proof]
        #[kani::unwind($u)]
        #[kani::stub(str::to_lowercase, lowercase_any_model)]
        fn $name() {
            let p: &[u8] = $prefix;
            let (a, v) = input::<$s, $n>(p, true);
            drive::<$n>(Tokenizer::new(v), &a, $acc);
        }
    };
}

macro_rules! tok_acc {
    ($name:ident, $prefix:expr, $s:expr, $n:expr, $u:expr) => {
        #[kani::proof]
        #[kani::unwind($u)]
        #[kani::stub(str::to_lowercase, lowercase_any_model)]
        fn $name() {
            let p: &[u8] = $prefix;
            let (a, v) = input::<$s, $n>(p, false);
            drive::<$n>(Tokenizer::new(v), &a, true);
        }
    };
}

tok!(c16_tok_empty_s2, b"", 2, "", 2, 4);
tok!(c16_tok_empty_s3, b"", 3, "", 3, 5);
tok!(c16_tok_text_lt_s2, b"x<", 2, "", 4, 6);
tok!(c16_tok_lt_s2, b"<", 2, "", 3, 5);
tok!(c16_tok_tag_s2, b"<a", 2, "", 4, 6);
tok!(c16_tok_tag_sp_s2, b"<a ", 2, "", 5, 7);
tok!(c16_tok_tag_slash_s2, b"<a/", 2, "", 5, 7);
tok!(c16_tok_attr_key_s2, b"<a b", 2, "", 6, 8);
tok!(c16_tok_attr_eq_s2, b"<a b=", 2, "", 7, 9);
tok!(c16_tok_attr_sq_s2, b"<a b='", 2, "", 8, 10);
tok!(c16_tok_attr_dq_s2, b"<a b=\"", 2, "", 8, 10);
tok!(c16_tok_attr_unq_s2, b"<a b=c", 2, "", 8, 10);
tok!(c16_tok_endtag_open_s2, b"</", 2, "", 4, 6);
tok!(c16_tok_endtag_s2, b"</a", 2, "", 5, 7);
tok!(c16_tok_bogus_s2, b"<?", 2, "", 4, 6);
tok!(c16_tok_decl_s2, b"<!", 2, "", 4, 6);
tok!(c16_tok_decl_dash_s2, b"<!-", 2, "", 5, 7);
tok!(c16_tok_comment_s2, b"<!--", 2, "", 6, 8);
tok!(c16_tok_comment_s3, b"<!--", 3, "", 7, 9);
tok!(c16_tok_comment_dash_s2, b"<!--a-", 2, "", 8, 10);
tok!(c16_tok_comment_dd_s2, b"<!--a--", 2, "", 9, 11);
tok!(c16_tok_comment_ddd_s2, b"<!---", 2, "", 7, 9);
tok!(c16_tok_doctype_s2, b"<!DOCTYPE", 2, "", 11, 13);
tok!(c16_tok_doctype_partial_s2, b"<!doct", 2, "", 8, 10);
tok!(c16_tok_cdata_partial_s2, b"<![CDA", 2, "", 8, 10);
tok!(c16_tok_cdata_s2, b"<![CDATA[", 2, "", 11, 13);
tok!(c16_tok_cdata_br_s2, b"<![CDATA[a]]", 2, "", 14, 16);
tok!(c16_tok_rawtag_script_s2, b"<script>", 2, "", 10, 12);
tok!(c16_tok_rawtag_title_s2, b"<title>", 2, "", 9, 11);
tok!(c16_tok_rawtag_title_end_s2, b"<title></titl", 2, "", 15, 17);
tok!(c16_tok_rawtag_plaintext_s2, b"<plaintext>", 2, "", 13, 15);
tok!(c16_tok_rawtag_xmp_selfclose_s2, b"<xmp/>", 2, "", 8, 10);
tok!(c16_tok_ctx_script_s2, b"", 2, "script", 2, 10);
tok!(c16_tok_ctx_script_s3, b"", 3, "script", 3, 10);
tok!(c16_tok_ctx_script_lt_s2, b"<", 2, "script", 3, 10);
tok!(c16_tok_ctx_script_end_s2, b"</scrip", 2, "script", 9, 11);
tok!(c16_tok_ctx_script_end_full_s2, b"</script", 2, "script", 10, 12);
tok!(c16_tok_ctx_script_esc_start_s2, b"<!", 2, "script", 4, 10);
tok!(c16_tok_ctx_script_escaped_s2, b"<!--", 2, "script", 6, 10);
tok!(c16_tok_ctx_script_escaped_dash_s2, b"<!--a-", 2, "script", 8, 10);
tok!(c16_tok_ctx_script_escaped_lt_s2, b"<!--<", 2, "script", 7, 10);
tok!(c16_tok_ctx_script_dbl_start_s2, b"<!--<scrip", 2, "script", 12, 14);
tok!(c16_tok_ctx_script_dbl_s2, b"<!--<script ", 2, "script", 14, 16);
tok!(c16_tok_ctx_script_dbl_dash_s2, b"<!--<script -", 2, "script", 15, 17);
tok!(c16_tok_ctx_script_dbl_lt_s2, b"<!--<script <", 2, "script", 15, 17);
tok!(c16_tok_ctx_script_dbl_end_s2, b"<!--<script </scrip", 2, "script", 21, 23);
tok!(c16_tok_ctx_title_s2, b"", 2, "title", 2, 9);
tok!(c16_tok_ctx_title_end_s2, b"a</titl", 2, "title", 9, 11);
tok!(c16_tok_ctx_textarea_end_s2, b"</textarea", 2, "textarea", 12, 14);
tok!(c16_tok_ctx_plaintext_s2, b"", 2, "plaintext", 2, 13);
tok!(c16_tok_ctx_style_s2, b"</", 2, "style", 4, 9);

// deeper suffixes in the states that read every byte once (cheap in path mode)
tok!(c16_tok_comment_s4, b"<!--", 4, "", 8, 10);
tok!(c16_tok_comment_dd_s3, b"<!--a--", 3, "", 10, 12);
tok!(c16_tok_comment_ddd_s3, b"<!---", 3, "", 8, 10);
tok!(c16_tok_comment_bang_s2, b"<!--a--!", 2, "", 10, 12);
tok!(c16_tok_cdata_s3, b"<![CDATA[", 3, "", 12, 14);
tok!(c16_tok_cdata_br_s3, b"<![CDATA[a]]", 3, "", 15, 17);
tok!(c16_tok_cdata_br1_s3, b"<![CDATA[]", 3, "", 13, 15);
tok!(c16_tok_bogus_s3, b"<?", 3, "", 5, 7);
tok!(c16_tok_bogus_s4, b"<?", 4, "", 6, 8);
tok!(c16_tok_bogus_end_s3, b"</ ", 3, "", 6, 8);
tok!(c16_tok_doctype_s3, b"<!DOCTYPE ", 3, "", 13, 15);
tok!(c16_tok_decl_other_s3, b"<!a", 3, "", 6, 8);
tok!(c16_tok_ctx_plaintext_s3, b"", 3, "plaintext", 3, 13);
tok!(c16_tok_ctx_plaintext_s4, b"x", 4, "plaintext", 5, 13);
tok!(c16_tok_text_s3_after_comment, b"<!---->", 2, "", 9, 11);

// CDATA with two brackets seen and a 2-byte character in progress (added after seed C16-m5 arrived)
tok!(c16_tok_cdata_br_utf8_s3, b"<![CDATA[]]\xc3", 3, "", 15, 17);

// single symbolic byte in the states whose 2-byte exploration runs past 25 min
tok!(c16_tok_lt_s1, b"<", 1, "", 2, 4);
tok!(c16_tok_tag_s1, b"<a", 1, "", 3, 5);
tok!(c16_tok_tag_sp_s1, b"<a ", 1, "", 4, 6);
tok!(c16_tok_tag_slash_s1, b"<a/", 1, "", 4, 6);
tok!(c16_tok_attr_key_s1, b"<a b", 1, "", 5, 7);
tok!(c16_tok_attr_eq_s1, b"<a b=", 1, "", 6, 8);
tok!(c16_tok_attr_sq_s1, b"<a b='", 1, "", 7, 9);
tok!(c16_tok_attr_dq_s1, b"<a b=\"", 1, "", 7, 9);
tok!(c16_tok_attr_unq_s1, b"<a b=c", 1, "", 7, 9);
tok!(c16_tok_attr_after_s1, b"<a b=c ", 1, "", 8, 10);
tok!(c16_tok_endtag_open_s1, b"</", 1, "", 3, 5);
tok!(c16_tok_endtag_s1, b"</a", 1, "", 4, 6);
tok!(c16_tok_decl_s1, b"<!", 1, "", 3, 5);
tok!(c16_tok_rawtag_script_s1, b"<script>", 1, "", 9, 11);
tok!(c16_tok_ctx_script_end_full_s1, b"</script", 1, "script", 9, 11);
tok!(c16_tok_ctx_script_dbl_end_s1, b"<!--<script </script", 1, "script", 21, 23);

// a multi-byte character in progress inside a tag name / attribute (concrete lead byte, symbolic continuation)
tok!(c16_tok_tag_utf8_s1, b"<a\xc3", 1, "", 4, 6);
tok!(c16_tok_endtag_utf8_s1, b"</a\xc2", 1, "", 5, 7);
tok!(c16_tok_attr_utf8_s1, b"<a b\xc3", 1, "", 6, 8);
tok!(c16_tok_text_utf8_s1, b"a\xe2\x82", 1, "", 4, 6);

// the real tag_name() accessor (String::from_utf8 + to_vec of the data span) on tag tokens
tok_acc!(c16_tok_acc_tag_s2, b"<a", 2, 4, 6);
tok_acc!(c16_tok_acc_endtag_s2, b"</a", 2, 5, 7);
tok_acc!(c16_tok_acc_tag_s1, b"<a", 1, 3, 5);
tok_acc!(c16_tok_acc_tagname2_s1, b"<ab", 1, 4, 6);
tok_acc!(c16_tok_acc_endtag_s1, b"</a", 1, 4, 6);
tok_acc!(c16_tok_acc_tag_utf8_s1, b"<a\xc3", 1, 4, 6);

// tag / attribute states with the up-front case split (sym_byte_pinned)
tok_pin!(c16_tokp_tag_utf8_s1, b"<a\xc3", 1, 4, 6, true);
tok_pin!(c16_tokp_tag_s1, b"<a", 1, 3, 5, true);
tok_pin!(c16_tokp_tag_s2, b"<a", 2, 4, 6, true);
tok_pin!(c16_tokp_endtag_s2, b"</a", 2, 5, 7, true);
tok_pin!(c16_tokp_endtag_utf8_s1, b"</a\xc2", 1, 5, 7, true);
tok_pin!(c16_tokp_tag_sp_s2, b"<a ", 2, 5, 7, false);
tok_pin!(c16_tokp_attr_key_s2, b"<a b", 2, 6, 8, false);
tok_pin!(c16_tokp_attr_eq_s2, b"<a b=", 2, 7, 9, false);
tok_pin!(c16_tokp_attr_sq_s2, b"<a b='", 2, 8, 10, false);
tok_pin!(c16_tokp_attr_unq_s2, b"<a b=c", 2, 8, 10, false);
tok_pin!(c16_tokp_attr_utf8_s1, b"<a b\xc3", 1, 6, 8, false);
