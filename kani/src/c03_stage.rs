//! C03 / C04 (part): one text filter stage (the real TextFilterBodyAction::{new, filter, end}) is
//! invariant under chunking and equals the reference (append: b ++ c, prepend: c ++ b, replace: c),
//! for every action, all byte contents and every partition of a 2-byte body into three consecutive
//! chunks (empty chunks included), and for the empty body with 0, 1 or 2 empty chunks.
//! The chain plumbing of FilterBodyAction (a heap Vec of a 400-byte enum that also holds the HTML
//! stage) did not fit CBMC (2.4 M symex steps, out of memory at 16 GB for ONE stage and ONE
//! partition) and is outside the claim.
use redirectionio::filter::{VerifTextFilterAction as TA, VerifTextFilterBodyAction as Stage};

const OUT: usize = 5;

struct Out {
    b: [u8; OUT],
    n: usize,
}

impl Out {
    fn take(&mut self, v: Vec<u8>) {
        let mut i = 0;
        while i < v.len() {
            assert!(self.n < OUT);
            self.b[self.n] = v[i];
            self.n += 1;
            i += 1;
        }
    }
}

fn chunk(b: &[u8], from: usize, to: usize) -> Vec<u8> {
    let mut v = Vec::with_capacity(to - from);
    let mut i = from;
    while i < to {
        v.push(b[i]);
        i += 1;
    }
    v
}

fn stage(a: u8, c: u8) -> Stage {
    let mut s = String::with_capacity(1);
    s.push(c as char);
    Stage::new(
        None,
        match a {
            0 => TA::Append,
            1 => TA::Prepend,
            _ => TA::Replace,
        },
        s,
    )
}

/// run the stage over the body cut at (s1, s2) [three chunks] or as `n_empty` empty chunks when L == 0
fn run<const L: usize>(a: u8, c: u8, body: &[u8; L], cuts: Option<(usize, usize)>, extra_empty: usize) -> Out {
    let mut st = stage(a, c);
    let mut o = Out { b: [0; OUT], n: 0 };
    match cuts {
        Some((s1, s2)) => {
            o.take(st.filter(chunk(body, 0, s1), None));
            o.take(st.filter(chunk(body, s1, s2), None));
            o.take(st.filter(chunk(body, s2, L), None));
        }
        None => {
            if L > 0 {
                o.take(st.filter(chunk(body, 0, L), None));
            }
        }
    }
    let mut i = 0;
    while i < extra_empty {
        o.take(st.filter(Vec::new(), None));
        i += 1;
    }
    o.take(st.end());
    o
}

fn check_same(x: &Out, want: &[u8], n: usize) {
    assert!(x.n == n);
    let mut i = 0;
    while i < OUT {
        if i < n {
            assert!(x.b[i] == want[i]);
        }
        i += 1;
    }
}

fn body2<const A: u8>() {
    let body: [u8; 2] = kani::any();
    let c: u8 = kani::any();
    kani::assume(c < 128);
    let (want, n): ([u8; 3], usize) = match A {
        0 => ([body[0], body[1], c], 3),
        1 => ([c, body[0], body[1]], 3),
        _ => ([c, 0, 0], 1),
    };
    let whole = run::<2>(A, c, &body, None, 0);
    check_same(&whole, &want, n);
    // every partition into three consecutive chunks
    let mut s1 = 0;
    while s1 <= 2 {
        let mut s2 = s1;
        while s2 <= 2 {
            let parts = run::<2>(A, c, &body, Some((s1, s2)), 0);
            check_same(&parts, &want, n);
            s2 += 1;
        }
        s1 += 1;
    }
    // trailing empty chunk after the whole body
    let t = run::<2>(A, c, &body, None, 1);
    check_same(&t, &want, n);
    kani::cover!(whole.n == n);
}

#[kani::proof]
#[kani::unwind(6)]
fn c03_stage_append_all_partitions() {
    body2::<0>();
}

#[kani::proof]
#[kani::unwind(6)]
fn c03_stage_prepend_all_partitions() {
    body2::<1>();
}

#[kani::proof]
#[kani::unwind(6)]
fn c03_stage_replace_all_partitions() {
    body2::<2>();
}

/// empty body: no chunk at all, one empty chunk, two empty chunks: the content appears exactly once
#[kani::proof]
#[kani::unwind(6)]
fn c03_stage_empty_body() {
    let c: u8 = kani::any();
    kani::assume(c < 128);
    let a: u8 = kani::any();
    kani::assume(a < 3);
    let body: [u8; 0] = [];
    let mut k = 0;
    while k <= 2 {
        let o = run::<0>(a, c, &body, None, k);
        check_same(&o, &[c], 1);
        k += 1;
    }
    kani::cover!(a == 2);
}

/// thorough: 3-byte body, every partition into three consecutive chunks (10 partitions)
fn body3<const A: u8>() {
    let body: [u8; 3] = kani::any();
    let c: u8 = kani::any();
    kani::assume(c < 128);
    let (want, n): ([u8; 4], usize) = match A {
        0 => ([body[0], body[1], body[2], c], 4),
        1 => ([c, body[0], body[1], body[2]], 4),
        _ => ([c, 0, 0, 0], 1),
    };
    let whole = run::<3>(A, c, &body, None, 0);
    check_same(&whole, &want, n);
    let mut s1 = 0;
    while s1 <= 3 {
        let mut s2 = s1;
        while s2 <= 3 {
            let parts = run::<3>(A, c, &body, Some((s1, s2)), 0);
            check_same(&parts, &want, n);
            s2 += 1;
        }
        s1 += 1;
    }
    kani::cover!(whole.n == n);
}

#[kani::proof]
#[kani::unwind(7)]
fn c03_stage_prepend_body3() {
    body3::<1>();
}

#[kani::proof]
#[kani::unwind(7)]
fn c03_stage_append_body3() {
    body3::<0>();
}

#[kani::proof]
#[kani::unwind(7)]
fn c03_stage_replace_body3() {
    body3::<2>();
}
