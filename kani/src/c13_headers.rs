//! C13: FilterHeaderAction::{new, filter} (and the five HeaderAction impls + create_header_action)
//! against a reference fold.  Shapes (which actions, how many headers) AND header names are
//! concrete per configuration (four name configurations per harness: duplicates in mixed case, one
//! match, no match, different filter names); all 1-byte ASCII values are symbolic.
//! `str::to_lowercase` is stubbed by an ASCII, length-preserving model (DESIGN §C13).
use crate::util::*;
use redirectionio::api::HeaderFilter;
use redirectionio::filter::FilterHeaderAction;
use redirectionio::http::Header;

const MAXH: usize = 6;

#[derive(Clone, Copy)]
struct H {
    n: [u8; MAXH],
    v: [u8; MAXH],
    len: usize,
}

fn action_name(a: u8) -> &'static str {
    match a {
        0 => "add",
        1 => "remove",
        2 => "replace",
        3 => "override",
        4 => "default",
        _ => "bogus",
    }
}

fn s1(b: u8) -> String {
    let mut s = String::with_capacity(1);
    s.push(b as char);
    s
}

/// reference semantics of one operation (case-insensitive name comparison)
fn apply(a: u8, fname: u8, fval: u8, h: &H) -> H {
    let mut o = H { n: [0; MAXH], v: [0; MAXH], len: 0 };
    let mut found = false;
    let mut i = 0;
    while i < h.len {
        let same = lc(h.n[i]) == lc(fname);
        if same {
            found = true;
        }
        let (keep, nn, vv) = match a {
            1 => (!same, h.n[i], h.v[i]),
            2 | 3 => {
                if same {
                    (true, fname, fval)
                } else {
                    (true, h.n[i], h.v[i])
                }
            }
            _ => (true, h.n[i], h.v[i]),
        };
        if keep {
            o.n[o.len] = nn;
            o.v[o.len] = vv;
            o.len += 1;
        }
        i += 1;
    }
    let push = match a {
        0 => true,
        3 | 4 => !found,
        _ => false,
    };
    if push {
        o.n[o.len] = fname;
        o.v[o.len] = fval;
        o.len += 1;
    }
    o
}

/// One configuration: concrete names (the names decide control flow and result length; symbolic
/// names made every result Vec a heap object of symbolic length: out of memory at 16 GB), symbolic
/// 1-byte ASCII values.
fn check_cfg<const M: usize, const K: usize>(acts: [u8; K], hn: [u8; M], fnm: [u8; K]) {
    let hv: [u8; M] = ascii_bytes::<M>();
    let fv: [u8; K] = ascii_bytes::<K>();
    let mut headers = Vec::with_capacity(M);
    let mut i = 0;
    while i < M {
        headers.push(Header { name: s1(hn[i]), value: s1(hv[i]) });
        i += 1;
    }
    let mut filters = Vec::with_capacity(K);
    let mut k = 0;
    while k < K {
        filters.push(HeaderFilter {
            action: String::from(action_name(acts[k])),
            header: s1(fnm[k]),
            value: s1(fv[k]),
            id: None,
            target_hash: None,
        });
        k += 1;
    }
    let out = match FilterHeaderAction::new(filters) {
        None => headers,
        Some(fa) => {
            let o = fa.filter(headers, None);
            std::mem::forget(fa);
            o
        }
    };
    // reference
    let mut r = H { n: [0; MAXH], v: [0; MAXH], len: M };
    let mut i = 0;
    while i < M {
        r.n[i] = hn[i];
        r.v[i] = hv[i];
        i += 1;
    }
    let mut k = 0;
    while k < K {
        r = apply(acts[k], fnm[k], fv[k], &r);
        k += 1;
    }
    assert!(out.len() == r.len);
    let mut i = 0;
    while i < MAXH {
        if i < r.len && i < out.len() {
            assert!(out[i].name.len() == 1 && out[i].value.len() == 1);
            assert!(out[i].name.as_bytes()[0] == r.n[i]);
            assert!(out[i].value.as_bytes()[0] == r.v[i]);
        }
        i += 1;
    }
    std::mem::forget(out);
}

/// All name configurations of one operation sequence on 2 input headers: duplicates in mixed
/// case, one match, no match (filter names equal or different for two-filter sequences).
/// A configuration with an EMPTY header value (shape): [("a", ""), ("B", v)], filter name a.
fn check_cfg_empty_value<const K: usize>(acts: [u8; K]) {
    let hv = ascii_bytes::<1>();
    let fv: [u8; K] = ascii_bytes::<K>();
    let headers = vec![Header { name: s1(b'a'), value: String::new() }, Header { name: s1(b'B'), value: s1(hv[0]) }];
    let mut filters = Vec::with_capacity(K);
    let mut k = 0;
    while k < K {
        filters.push(HeaderFilter { action: String::from(action_name(acts[k])), header: s1(b'a'), value: s1(fv[k]), id: None, target_hash: None });
        k += 1;
    }
    let out = match FilterHeaderAction::new(filters) {
        None => headers,
        Some(fa) => {
            let o = fa.filter(headers, None);
            std::mem::forget(fa);
            o
        }
    };
    // reference with value 0 standing for the empty value
    let mut r = H { n: [0; MAXH], v: [0; MAXH], len: 2 };
    r.n[0] = b'a';
    r.v[0] = 0;
    r.n[1] = b'B';
    r.v[1] = hv[0];
    kani::assume(hv[0] != 0);
    let mut k = 0;
    while k < K {
        kani::assume(fv[k] != 0);
        r = apply(acts[k], b'a', fv[k], &r);
        k += 1;
    }
    assert!(out.len() == r.len);
    let mut i = 0;
    while i < MAXH {
        if i < r.len && i < out.len() {
            assert!(out[i].name.as_bytes()[0] == r.n[i]);
            if r.v[i] == 0 {
                assert!(out[i].value.is_empty());
            } else {
                assert!(out[i].value.len() == 1 && out[i].value.as_bytes()[0] == r.v[i]);
            }
        }
        i += 1;
    }
    std::mem::forget(out);
}

fn check2<const K: usize>(acts: [u8; K]) {
    check_cfg_empty_value::<K>(acts);
    let f_same: [u8; K] = [b'a'; K];
    let mut f_mixed: [u8; K] = [b'A'; K];
    f_mixed[K - 1] = b'b';
    check_cfg::<2, K>(acts, [b'A', b'a'], f_same);
    check_cfg::<2, K>(acts, [b'B', b'a'], f_same);
    check_cfg::<2, K>(acts, [b'B', b'B'], f_same);
    check_cfg::<2, K>(acts, [b'a', b'B'], f_mixed);
}

/// Three input headers: a name occurring three times / twice / once.
fn check3<const K: usize>(acts: [u8; K]) {
    let f_same: [u8; K] = [b'a'; K];
    check_cfg::<3, K>(acts, [b'A', b'a', b'A'], f_same);
    check_cfg::<3, K>(acts, [b'B', b'a', b'A'], f_same);
    check_cfg::<3, K>(acts, [b'B', b'a', b'B'], f_same);
}

macro_rules! hdr1 {
    ($name:ident, $a:expr, $m:expr) => {
        #[kani::proof]
        #[kani::unwind(10)]
        #[kani::stub(str::to_lowercase, ascii_lowercase_model)]
        fn $name() {
            if $m == 2 { check2::<1>([$a]); } else { check3::<1>([$a]); }
            kani::cover!(true);
        }
    };
}
macro_rules! hdr2 {
    ($name:ident, $a:expr, $b:expr, $m:expr) => {
        #[kani::proof]
        #[kani::unwind(10)]
        #[kani::stub(str::to_lowercase, ascii_lowercase_model)]
        fn $name() {
            if $m == 2 { check2::<2>([$a, $b]); } else { check3::<2>([$a, $b]); }
            kani::cover!(true);
        }
    };
}

hdr1!(c13_add_m2, 0, 2);
hdr1!(c13_remove_m2, 1, 2);
hdr1!(c13_replace_m2, 2, 2);
hdr1!(c13_override_m2, 3, 2);
hdr1!(c13_default_m2, 4, 2);
hdr1!(c13_unknown_m2, 5, 2);

// two-filter sequences: every ordered pair of the six operations on 2 input headers
hdr2!(c13_add_override_m2, 0, 3, 2);
hdr2!(c13_add_remove_m2, 0, 1, 2);
hdr2!(c13_add_replace_m2, 0, 2, 2);
hdr2!(c13_add_default_m2, 0, 4, 2);
hdr2!(c13_unknown_override_m2, 5, 3, 2);
hdr2!(c13_override_unknown_m2, 3, 5, 2);
hdr2!(c13_remove_default_m2, 1, 4, 2);
hdr2!(c13_replace_override_m2, 2, 3, 2);
hdr2!(c13_default_replace_m2, 4, 2, 2);
hdr2!(c13_override_remove_m2, 3, 1, 2);
hdr2!(c13_unknown_unknown_m2, 5, 5, 2);
// three input headers, single operation
hdr1!(c13_override_m3, 3, 3);
hdr1!(c13_remove_m3, 1, 3);
hdr1!(c13_replace_m3, 2, 3);
hdr1!(c13_default_m3, 4, 3);

// the remaining ordered pairs of operations (thorough tier)
hdr2!(c13_add_add_m2, 0, 0, 2);
hdr2!(c13_add_unknown_m2, 0, 5, 2);
hdr2!(c13_remove_add_m2, 1, 0, 2);
hdr2!(c13_remove_remove_m2, 1, 1, 2);
hdr2!(c13_remove_replace_m2, 1, 2, 2);
hdr2!(c13_remove_override_m2, 1, 3, 2);
hdr2!(c13_remove_unknown_m2, 1, 5, 2);
hdr2!(c13_replace_add_m2, 2, 0, 2);
hdr2!(c13_replace_remove_m2, 2, 1, 2);
hdr2!(c13_replace_replace_m2, 2, 2, 2);
hdr2!(c13_replace_default_m2, 2, 4, 2);
hdr2!(c13_replace_unknown_m2, 2, 5, 2);
hdr2!(c13_override_add_m2, 3, 0, 2);
hdr2!(c13_override_replace_m2, 3, 2, 2);
hdr2!(c13_override_override_m2, 3, 3, 2);
hdr2!(c13_override_default_m2, 3, 4, 2);
hdr2!(c13_default_add_m2, 4, 0, 2);
hdr2!(c13_default_remove_m2, 4, 1, 2);
hdr2!(c13_default_override_m2, 4, 3, 2);
hdr2!(c13_default_default_m2, 4, 4, 2);
hdr2!(c13_default_unknown_m2, 4, 5, 2);
hdr2!(c13_unknown_add_m2, 5, 0, 2);
hdr2!(c13_unknown_remove_m2, 5, 1, 2);
hdr2!(c13_unknown_replace_m2, 5, 2, 2);
hdr2!(c13_unknown_default_m2, 5, 4, 2);
