//! C08 harness B / C12: the tree plumbing (insert/split/descend/remove/collapse/retain/cache) answers
//! exactly like a linear scan, for ALL haystacks of the bound, over concrete pattern menus.
//! The regex engine is the model of /repo/src/verif_shim/regex_model.rs (cfg(kani)).
use crate::util::*;
use redirectionio::regex_radix_tree::RegexTreeMap;
use redirectionio::verif_shim::regex_model::RegexBuilder;

/// Linear-scan reference, independent of /repo's regex model and allocation-free: does the
/// anchored pattern ^p$ match h?  Pattern class of the menu: literals, `\\x` escaped literal, `.`,
/// transparent groups `(`, `(?:`, `)`.
fn linear(p: &str, h: &str, ci: bool) -> bool {
    let p = p.as_bytes();
    let h = h.as_bytes();
    let mut i = 0;
    let mut j = 0;
    while i < p.len() {
        let c = p[i];
        if c == b'(' {
            i += 1;
            if i + 1 < p.len() && p[i] == b'?' && p[i + 1] == b':' {
                i += 2;
            }
            continue;
        }
        if c == b')' {
            i += 1;
            continue;
        }
        if j >= h.len() {
            return false;
        }
        if c == b'\\' {
            if fold(h[j], ci) != fold(p[i + 1], ci) {
                return false;
            }
            i += 2;
        } else if c == b'.' {
            if h[j] == b'\n' {
                return false;
            }
            i += 1;
        } else {
            if fold(h[j], ci) != fold(c, ci) {
                return false;
            }
            i += 1;
        }
        j += 1;
    }
    j == h.len()
}

fn fold(c: u8, ci: bool) -> u8 {
    if ci {
        lc(c)
    } else {
        c
    }
}

#[derive(Clone, Copy)]
pub enum Op {
    None,
    /// remove(id k): returns the value, a second remove returns None
    Remove(usize),
    /// retain with a keep-mask over ids (bit k = keep id k)
    Retain(u8),
    /// cache(limit, level) with concrete limit (level: 255 = None); a symbolic limit made the query
    /// run out of memory at 12 GB (every compile step then sits under a symbolic guard)
    Cache(u8, u64),
    /// retain that drops every value, then store pattern k again (the emptied tree must keep its
    /// case mode)
    RetainNoneReinsert(usize),
    /// store again under the same (pattern, id) with a new value
    Replace(usize),
    /// remove(id k) then insert it again (re-insertion after a collapse)
    RemoveReinsert(usize),
    /// cache fully (level None, limit 8) and then remove k: cached and uncached nodes mixed
    CacheThenRemove(usize),
    /// build from the first N-1 patterns, cache fully, then insert the last pattern (a split of a
    /// cached item must keep the case mode)
    CacheBeforeLastInsert,
}

const IDS: [&str; 4] = ["0", "1", "2", "3"];

fn id_index(id: &str) -> usize {
    (id.as_bytes()[0] - b'0') as usize
}

/// Build a tree from N concrete patterns, apply one operation, then compare find()/len()/get()
/// with the linear-scan reference for ALL ASCII haystacks of length L.
pub fn scenario<const N: usize, const L: usize, const GET: bool>(pats: [&'static str; N], ci: bool, op: Op) {
    let mut t: RegexTreeMap<u8> = RegexTreeMap::new(ci);
    let mut k = 0;
    while k < N {
        if k == N - 1 {
            if let Op::CacheBeforeLastInsert = op {
                let left = t.cache(8, None);
                assert!(left == 8 - t.cached_len() as u64);
            }
        }
        t.insert(pats[k], IDS[k], k as u8);
        k += 1;
    }
    assert!(t.len() == N);
    let mut live = [true; N];
    let mut val = [0u8; N];
    let mut k = 0;
    while k < N {
        val[k] = k as u8;
        k += 1;
    }
    match op {
        Op::None | Op::CacheBeforeLastInsert => {}
        Op::Remove(r) => {
            assert!(t.remove(IDS[r]) == Some(r as u8));
            live[r] = false;
        }
        Op::Retain(mask) => {
            t.retain(&|id: &str, _v: &mut u8| (mask >> id_index(id)) & 1 == 1);
            let mut k = 0;
            while k < N {
                live[k] = (mask >> k) & 1 == 1;
                k += 1;
            }
        }
        Op::RetainNoneReinsert(r) => {
            t.retain(&|_id: &str, _v: &mut u8| false);
            assert!(t.len() == 0 && t.is_empty());
            t.insert(pats[r], IDS[r], r as u8);
            let mut k = 0;
            while k < N {
                live[k] = k == r;
                k += 1;
            }
        }
        Op::Cache(level, limit) => {
            assert!(t.cached_len() == 0);
            let left = t.cache(limit, if level == 255 { None } else { Some(level as u64) });
            let cached = t.cached_len() as u64;
            assert!(cached <= limit);
            assert!(left == limit - cached);
        }
        Op::Replace(r) => {
            t.insert(pats[r], IDS[r], 9);
            val[r] = 9;
        }
        Op::RemoveReinsert(r) => {
            assert!(t.remove(IDS[r]) == Some(r as u8));
            t.insert(pats[r], IDS[r], r as u8);
        }
        Op::CacheThenRemove(r) => {
            let left = t.cache(8, None);
            assert!(left == 8 - t.cached_len() as u64);
            assert!(t.remove(IDS[r]) == Some(r as u8));
            live[r] = false;
        }
    }
    let mut nlive = 0;
    let mut k = 0;
    while k < N {
        if live[k] {
            nlive += 1;
        }
        k += 1;
    }
    assert!(t.len() == nlive);
    assert!(t.is_empty() == (nlive == 0));

    // find == linear scan, for all ASCII haystacks of length L
    let hb = ascii_bytes::<L>();
    let h = as_str(&hb);
    let found = t.find(h);
    let mut seen = [0u8; N];
    let mut i = 0;
    while i < found.len() {
        let v = *found[i];
        let mut k = 0;
        let mut hit = false;
        while k < N {
            if v == val[k] {
                seen[k] += 1;
                hit = true;
            }
            k += 1;
        }
        assert!(hit);
        i += 1;
    }
    let mut any_match = false;
    let mut k = 0;
    while k < N {
        let want = live[k] && linear(pats[k], h, ci);
        assert!(seen[k] == want as u8);
        any_match = any_match || want;
        k += 1;
    }
    kani::cover!(any_match);
    kani::cover!(!any_match);
    std::mem::forget(found);

    // lookup by pattern returns exactly the values stored under that pattern
    let mut k = if GET { 0 } else { N };
    while k < N {
        let g = t.get(pats[k]);
        let mut expect = 0;
        let mut only = 0;
        let mut j = 0;
        while j < N {
            if live[j] && same_str(pats[j], pats[k]) {
                expect += 1;
                only = j;
            }
            j += 1;
        }
        assert!(g.len() == expect);
        if expect == 1 {
            // the single live value stored under this pattern (not necessarily id k's own)
            assert!(*g[0] == val[only]);
        }
        std::mem::forget(g);
        k += 1;
    }
    std::mem::forget(t);
}

fn same_str(a: &str, b: &str) -> bool {
    let (a, b) = (a.as_bytes(), b.as_bytes());
    if a.len() != b.len() {
        return false;
    }
    let mut i = 0;
    while i < a.len() {
        if a[i] != b[i] {
            return false;
        }
        i += 1;
    }
    true
}

macro_rules! tree_get_harness {
    ($name:ident, $n:expr, $l:expr, $pats:expr, $ci:expr, $op:expr) => {
        #[kani::proof]
        #[kani::unwind(9)]
        #[kani::stub(std::mem::swap, typed_swap)]
        fn $name() {
            scenario::<$n, $l, true>($pats, $ci, $op);
        }
    };
}

macro_rules! tree_harness {
    ($name:ident, $n:expr, $l:expr, $pats:expr, $ci:expr, $op:expr) => {
        #[kani::proof]
        #[kani::unwind(9)]
        #[kani::stub(std::mem::swap, typed_swap)]
        fn $name() {
            scenario::<$n, $l, false>($pats, $ci, $op);
        }
    };
}

// ---- two patterns ----------------------------------------------------------------------------
tree_harness!(c08_tree2_group_find, 2, 2, ["ab", "a(.)"], false, Op::None);
tree_harness!(c08_tree2_escape_find, 2, 2, ["a\\(", "a(.)"], false, Op::None);
tree_harness!(c08_tree2_remove0, 2, 2, ["ab", "a(.)"], false, Op::Remove(0));
tree_harness!(c08_tree2_ci_find, 2, 2, ["aB", "A(.)"], true, Op::None);
tree_harness!(c12_tree2_cache_none_2, 2, 2, ["ab", "a(.)"], false, Op::Cache(255, 2));
tree_harness!(c12_tree2_cache_none_8, 2, 2, ["ab", "a(.)"], false, Op::Cache(255, 8));
tree_harness!(c12_tree2_cache_l0_1, 2, 2, ["ab", "a(.)"], false, Op::Cache(0, 1));
tree_harness!(c12_tree2_cache_l1_1, 2, 2, ["ab", "a(.)"], false, Op::Cache(1, 1));
tree_harness!(c12_tree2_cache_l1_8, 2, 2, ["ab", "a(.)"], false, Op::Cache(1, 8));
// disjoint patterns: the root is an empty-prefix node (pattern ".*"); one pattern contains a literal
// newline, so a cached root that stopped matching haystacks with a newline would lose a lookup
tree_harness!(c12_tree2_disjoint_newline_cache_l0, 2, 2, ["a\n", "b(.)"], false, Op::Cache(0, 1));
tree_harness!(c12_tree2_ci_cache_before_insert, 2, 2, ["aB", "A(.)"], true, Op::CacheBeforeLastInsert);
// ---- one pattern: the emptied tree keeps its case mode (RegexTreeMap::retain writes the root back)
tree_harness!(c08_tree1_ci_retain_none_reinsert, 1, 2, ["aB"], true, Op::RetainNoneReinsert(0));
// two ids stored under ONE pattern (a single leaf): removing one keeps the other
tree_get_harness!(c08_tree1_two_ids_remove_one, 2, 2, ["a(.)", "a(.)"], false, Op::Remove(0));
tree_get_harness!(c08_tree1_replace_and_get, 1, 2, ["a(.)"], false, Op::Replace(0));
#[kani::proof]
#[kani::unwind(12)]
#[kani::stub(std::mem::swap, typed_swap)]
fn c08_tree2_longer_patterns_find() {
    scenario::<2, 3, false>(["a(.)b", "a(.)(.)"], false, Op::None);
}
tree_harness!(c08_tree2_disjoint_find, 2, 2, ["ab", "b(.)"], false, Op::None);
tree_harness!(c08_tree1_ci_remove_reinsert, 1, 2, ["aB"], true, Op::RemoveReinsert(0));
tree_harness!(c08_tree2_ci_retain_none_reinsert, 2, 2, ["aB", "A(.)"], true, Op::RetainNoneReinsert(0));
tree_get_harness!(c08_tree2_get_after_remove, 2, 1, ["ab", "a(.)"], false, Op::Remove(1));
tree_get_harness!(c08_tree3_get_same_pattern, 3, 1, ["ab", "a(.)", "ab"], false, Op::Replace(2));
// ---- three patterns --------------------------------------------------------------------------
tree_harness!(c08_tree3_split_root_find, 3, 2, ["ab", "a(.)", "b"], false, Op::None);
tree_harness!(c08_tree3_nested_find, 3, 3, ["ab", "a(.)", "abb"], false, Op::None);
tree_harness!(c08_tree3_remove_collapse, 3, 2, ["ab", "a(.)", "b"], false, Op::Remove(2));
tree_harness!(c08_tree3_remove_inner, 3, 2, ["ab", "a(.)", "b"], false, Op::Remove(0));
tree_harness!(c08_tree3_retain_101, 3, 2, ["ab", "a(.)", "b"], false, Op::Retain(0b101));
tree_harness!(c08_tree3_retain_100, 3, 2, ["ab", "a(.)", "b"], false, Op::Retain(0b100));
tree_harness!(c08_tree3_replace, 3, 2, ["ab", "a(.)", "ab"], false, Op::Replace(0));
tree_harness!(c08_tree3_reinsert, 3, 2, ["ab", "a(.)", "b"], false, Op::RemoveReinsert(1));
tree_harness!(c12_tree3_cache_none_2, 3, 2, ["ab", "a(.)", "b"], false, Op::Cache(255, 2));
tree_harness!(c12_tree3_cache_then_remove, 3, 2, ["ab", "a(.)", "b"], false, Op::CacheThenRemove(1));


/// Cache budget arithmetic on a single-leaf tree for ANY limit and level (u64): no underflow of the
/// remaining budget, at most `limit` items cached, returned budget == limit - cached, lookups
/// unchanged, and a second warm-up caches nothing more.
#[kani::proof]
#[kani::unwind(9)]
#[kani::stub(std::mem::swap, typed_swap)]
fn c12_tree1_cache_any_limit_level() {
    cache_any(false, "a(.)");
}

/// the same on a case-insensitive tree with a mixed-case pattern: a compiled regex must fold case
/// exactly like the regex built on the fly
#[kani::proof]
#[kani::unwind(9)]
#[kani::stub(std::mem::swap, typed_swap)]
fn c12_tree1_ci_cache_any_limit_level() {
    cache_any(true, "aB");
}

fn cache_any(ci: bool, pat: &'static str) {
    let mut t: RegexTreeMap<u8> = RegexTreeMap::new(ci);
    t.insert(pat, "0", 0);
    let limit: u64 = kani::any();
    let level: Option<u64> = kani::any();
    let left = t.cache(limit, level);
    let cached = t.cached_len() as u64;
    assert!(cached <= limit && cached <= 1);
    assert!(left == limit - cached);
    let left2 = t.cache(left, level);
    assert!(t.cached_len() as u64 == cached && left2 == left);
    let hb = ascii_bytes::<2>();
    let h = as_str(&hb);
    let found = t.find(h);
    assert!((found.len() == 1) == linear(pat, h, ci));
    kani::cover!(cached == 1 && found.len() == 1);
    kani::cover!(cached == 1);
    kani::cover!(cached == 0 && limit > 0);
    std::mem::forget(found);
    std::mem::forget(t);
}

// ------------------------------------------------------------------------------------------------
// C17 (tree half): the values found in the MATCHED leaves of trace(h) are exactly the values find(h)
// returns, and every traced item reports the number of values stored below it.
fn trace_equals_find<const N: usize>(pats: [&'static str; N], ci: bool) {
    let mut t: RegexTreeMap<u8> = RegexTreeMap::new(ci);
    let mut k = 0;
    while k < N {
        t.insert(pats[k], IDS[k], k as u8);
        k += 1;
    }
    let hb = ascii_bytes::<2>();
    let h = as_str(&hb);
    let found = t.find(h);
    let mut seen = [0u8; N];
    let mut i = 0;
    while i < found.len() {
        seen[*found[i] as usize] += 1;
        i += 1;
    }
    let tr = t.trace(h);
    assert!(tr.verif_count() == N as u64);
    let mut traced = [0u8; N];
    // root: a leaf (values at the root) or a node with leaf children (depth <= 2 for these menus)
    if tr.verif_matched() {
        let vs = tr.verif_values();
        let mut i = 0;
        while i < vs.len() {
            traced[*vs[i] as usize] += 1;
            i += 1;
        }
        let ch = tr.verif_children();
        let mut c = 0;
        while c < ch.len() {
            assert!(ch[c].verif_children().is_empty());
            if ch[c].verif_matched() {
                let vs = ch[c].verif_values();
                let mut i = 0;
                while i < vs.len() {
                    traced[*vs[i] as usize] += 1;
                    i += 1;
                }
            }
            c += 1;
        }
    }
    let mut any = false;
    let mut k = 0;
    while k < N {
        assert!(traced[k] == seen[k]);
        assert!(seen[k] == linear(pats[k], h, ci) as u8);
        any = any || seen[k] == 1;
        k += 1;
    }
    kani::cover!(any);
    kani::cover!(!any);
    std::mem::forget(tr);
    std::mem::forget(found);
    std::mem::forget(t);
}

#[kani::proof]
#[kani::unwind(9)]
#[kani::stub(std::mem::swap, typed_swap)]
fn c17_tree1_trace_equals_find() {
    trace_equals_find::<1>(["a(.)"], false);
}

#[kani::proof]
#[kani::unwind(9)]
#[kani::stub(std::mem::swap, typed_swap)]
fn c17_tree2_trace_equals_find() {
    trace_equals_find::<2>(["ab", "a(.)"], false);
}
