//! C07 (part): panic-freedom of enumerated kernels for arbitrary inputs within the bound.
//! Kani's built-in checks (panic, slice/str index, overflow, pointer validity) are the oracle.
use crate::util::*;
use redirectionio::marker::{Slice, Transform};

/// `core::str::slice_error_fail` builds a formatted panic message (char-boundary search, 256-byte
/// truncation, fmt machinery: 300k symex steps, solver out of memory).  The stub keeps the panic
/// (so a reachable slicing error is still reported) and drops only the message formatting.
pub fn slice_error_fail_stub(_s: &str, _begin: usize, _end: usize) -> ! {
    panic!("str slice index out of range or not on a char boundary")
}

/// What the `to_string` stub saw: (first byte of the slice or usize::MAX, its length).
static mut SLICE_SEEN: (usize, usize) = (usize::MAX, usize::MAX);

/// Model of `<str as ToString>::to_string` for the Slice harness: allocating and copying a valid
/// `&str` cannot panic, so the copy (a heap object of symbolic length, which CBMC cannot handle:
/// out of memory at 12 GB) is replaced by recording which sub-slice was requested.
pub fn to_string_recorder<T: std::fmt::Display + ?Sized>(s: &T) -> String {
    unsafe {
        let n = std::mem::size_of_val(s);
        let first = if n > 0 { *(s as *const T as *const u8) as usize } else { usize::MAX };
        SLICE_SEEN = (first, n);
    }
    String::new()
}

/// Slice transformer on a 3-byte ASCII string, ANY from/to in the full usize range (including
/// from > to and huge values): no panic, and the sub-slice handed to `to_string` is exactly
/// [min(from,len), max(min(to,len), min(from,len))).
#[kani::proof]
#[kani::unwind(6)]
#[kani::stub(<str as std::string::ToString>::to_string, to_string_recorder)]
#[kani::stub(core::str::slice_error_fail, slice_error_fail_stub)]
fn c07_slice_ascii3() {
    // content is concrete: for ASCII every offset is a char boundary, so the content does not
    // influence control flow (symbolic content made the query run out of memory at 16 GB)
    let b: [u8; 3] = [b'x', b'y', b'z'];
    let s = String::from("xyz");
    let from: usize = kani::any();
    let to: Option<usize> = kani::any();
    let out = Slice::new(from, to).transform(s);
    let len = 3usize;
    let t0 = match to {
        Some(t) if t < len => t,
        _ => len,
    };
    let seen = unsafe { SLICE_SEEN };
    if from > len || t0 < from {
        // empty result: either the literal "" (nothing recorded by this call) or an empty slice
        assert!(seen.1 == usize::MAX || seen.1 == 0);
    } else {
        assert!(seen.1 == t0 - from);
        if t0 > from {
            assert!(seen.0 == b[from] as usize);
        }
    }
    kani::cover!(seen.1 == 2);
    kani::cover!(from > 3);
    kani::cover!(to.is_some() && from <= 3 && to.unwrap() < from);
    std::mem::forget(out);
}

/// Slice transformer on "a\u{e9}b" (4 bytes, one 2-byte char): no panic for any from/to, and the
/// result is valid UTF-8 made of whole chars of the input.
#[kani::proof]
#[kani::unwind(7)]
#[kani::stub(core::str::slice_error_fail, slice_error_fail_stub)]
fn c07_slice_multibyte() {
    let s = String::from("a\u{e9}b");
    let from: usize = kani::any();
    let to: Option<usize> = kani::any();
    let out = Slice::new(from, to).transform(s);
    assert!(out.len() <= 4);
    kani::cover!(out.len() == 4);
    kani::cover!(from == 2);
    std::mem::forget(out);
}
