//! C18 (part) / C07: the extern "C" surface around actions, body filters, buffers and header lists.
//! CBMC's memory model decides: no double free, no use after free, no out-of-bounds, deallocation
//! size == allocation size; the harness plays the C caller and releases everything it is handed.
use crate::util::*;
use redirectionio::action::verif_ffi::*;
use redirectionio::action::Action;
use redirectionio::api::{BodyFilter, TextAction, TextBodyFilter};
use redirectionio::filter::buffer::{redirectionio_api_buffer_drop, Buffer};
use redirectionio::filter::FilterBodyAction;
use redirectionio::http::ffi::{header_map_to_http_headers, http_headers_to_header_map, HeaderMap};
use redirectionio::http::Header;
use std::ffi::CString;
use std::os::raw::c_char;

fn raw(b: &Buffer) -> (*mut u8, usize) {
    // Buffer is #[repr(C)] { data: *mut u8, len: usize }
    unsafe { std::ptr::read(b as *const Buffer as *const (*mut u8, usize)) }
}

fn buffer_of<const CAP: usize, const LEN: usize>() -> (Buffer, [u8; LEN]) {
    let b: [u8; LEN] = kani::any();
    let mut v = Vec::with_capacity(CAP);
    let mut i = 0;
    while i < LEN {
        v.push(b[i]);
        i += 1;
    }
    (Buffer::from_vec(v), b)
}

/// NULL filter: the chunk is handed back as a *distinct* buffer with equal bytes; the caller releases
/// both its input and the output exactly once.
#[kani::proof]
#[kani::unwind(6)]
fn c18_ffi_null_filter_duplicates() {
    let (input, bytes) = buffer_of::<4, 2>();
    let (in_ptr, in_len) = raw(&input);
    // the C caller keeps its own copy of the struct (passed by value)
    let input_for_call = unsafe { std::ptr::read(&input) };
    let out = redirectionio_action_body_filter_filter(std::ptr::null_mut(), input_for_call);
    let (out_ptr, out_len) = raw(&out);
    assert!(out_len == in_len && in_len == 2);
    assert!(out_ptr != in_ptr);
    unsafe {
        assert!(*out_ptr == bytes[0] && *out_ptr.add(1) == bytes[1]);
    }
    redirectionio_api_buffer_drop(out);
    redirectionio_api_buffer_drop(input);
}

/// Documented-NULL contracts of the action / body-filter entry points.
#[kani::proof]
#[kani::unwind(6)]
fn c18_ffi_null_contracts() {
    let c: u16 = kani::any();
    let b: bool = kani::any();
    redirectionio_action_drop(std::ptr::null_mut());
    redirectionio_action_body_filter_drop(std::ptr::null_mut());
    assert!(redirectionio_action_get_status_code(std::ptr::null_mut(), c) == 0);
    assert!(redirectionio_action_should_log_request(std::ptr::null_mut(), b, c) == b);
    assert!(redirectionio_action_body_filter_create(std::ptr::null_mut(), c, std::ptr::null()).is_null());
    assert!(redirectionio_action_header_filter_filter(std::ptr::null_mut(), std::ptr::null(), c, b).is_null());
    assert!(redirectionio_action_json_serialize(std::ptr::null_mut()).is_null());
    let e = redirectionio_action_body_filter_close(std::ptr::null_mut());
    let (p, l) = raw(&e);
    assert!(p.is_null() && l == 0);
    redirectionio_api_buffer_drop(e);
    // empty chunk through a NULL filter
    let out = redirectionio_action_body_filter_filter(std::ptr::null_mut(), Buffer::default());
    let (p, l) = raw(&out);
    assert!(p.is_null() && l == 0);
    redirectionio_api_buffer_drop(out);
}

/// A body filter handed to C (Box::into_raw), fed one chunk and closed: every buffer and the filter
/// itself are released exactly once, and the bytes equal the native API's.
#[kani::proof]
#[kani::unwind(8)]
#[kani::stub(redirectionio::filter::HtmlFilterBodyAction::filter, html_filter_unreachable)]
#[kani::stub(redirectionio::filter::HtmlFilterBodyAction::end, html_end_unreachable)]
fn c18_ffi_body_filter_lifecycle() {
    let c: u8 = kani::any();
    kani::assume(c < 128);
    let f = FilterBodyAction::new(
        vec![BodyFilter::Text(TextBodyFilter { action: TextAction::Append, content: s1(c), id: None, target_hash: None })],
        &[],
    );
    let fp = Box::into_raw(Box::new(f));
    let (input, bytes) = buffer_of::<3, 2>();
    let out = redirectionio_action_body_filter_filter(fp, input);
    let (p, l) = raw(&out);
    assert!(l == 2);
    unsafe {
        assert!(*p == bytes[0] && *p.add(1) == bytes[1]);
    }
    redirectionio_api_buffer_drop(out);
    let end = redirectionio_action_body_filter_close(fp);
    let (p, l) = raw(&end);
    assert!(l == 1);
    unsafe {
        assert!(*p == c);
    }
    redirectionio_api_buffer_drop(end);
}

unsafe fn node(p: *const HeaderMap) -> (*const c_char, *const c_char, *mut HeaderMap) {
    // HeaderMap is #[repr(C)] { name, value, next }
    std::ptr::read(p as *const (*const c_char, *const c_char, *mut HeaderMap))
}

/// Header list handed to C and read back: same multiset (order reversed), and the caller can release
/// every node and every string exactly once.
#[kani::proof]
#[kani::unwind(6)]
fn c18_ffi_header_map_roundtrip() {
    let n = ascii_bytes::<2>();
    let v = ascii_bytes::<2>();
    kani::assume(n[0] != 0 && n[1] != 0 && v[0] != 0 && v[1] != 0);
    let headers = vec![Header { name: s1(n[0]), value: s1(v[0]) }, Header { name: s1(n[1]), value: s1(v[1]) }];
    let map = http_headers_to_header_map(headers);
    assert!(!map.is_null());
    let back = header_map_to_http_headers(map);
    assert!(back.len() == 2);
    assert!(back[0].name.as_bytes()[0] == n[1] && back[0].value.as_bytes()[0] == v[1]);
    assert!(back[1].name.as_bytes()[0] == n[0] && back[1].value.as_bytes()[0] == v[0]);
    // the C caller releases the list
    let mut cur = map;
    let mut count = 0;
    while !cur.is_null() {
        let (name, value, next) = unsafe { node(cur) };
        assert!(!name.is_null() && !value.is_null());
        unsafe {
            drop(CString::from_raw(name as *mut c_char));
            drop(CString::from_raw(value as *mut c_char));
            drop(Box::from_raw(cur as *mut HeaderMap));
        }
        cur = next;
        count += 1;
    }
    assert!(count == 2);
    // NULL list <-> empty vector
    assert!(header_map_to_http_headers(std::ptr::null()).is_empty());
    assert!(http_headers_to_header_map(Vec::new()).is_null());
}

/// One header with a concrete name and a 1-byte symbolic value that may be NUL, handed to C: exactly
/// one node; the name string is present; the value string is NULL iff the value contains a NUL; the
/// caller can release everything exactly once.
#[kani::proof]
#[kani::unwind(6)]
fn c18_ffi_header_map_one_header() {
    let v: u8 = kani::any();
    kani::assume(v < 128);
    let map = http_headers_to_header_map(vec![Header { name: String::from("a"), value: s1(v) }]);
    assert!(!map.is_null());
    let (name, value, next) = unsafe { node(map) };
    assert!(next.is_null());
    assert!(!name.is_null());
    assert!(value.is_null() == (v == 0));
    unsafe {
        assert!(*(name as *const u8) == b'a' && *(name as *const u8).add(1) == 0);
        if !value.is_null() {
            assert!(*(value as *const u8) == v && *(value as *const u8).add(1) == 0);
            // CString::into_raw hands out a Box<[u8]> of len + 1 bytes (CString::from_raw would call strlen,
            // a foreign function Kani does not model)
            drop(Box::from_raw(std::slice::from_raw_parts_mut(value as *mut u8, 2)));
        }
        drop(Box::from_raw(std::slice::from_raw_parts_mut(name as *mut u8, 2)));
        drop(Box::from_raw(map as *mut HeaderMap));
    }
    kani::cover!(v == 0);
    kani::cover!(v != 0);
}

/// Model of `CStr::from_ptr` (libc `strlen`, a foreign function Kani does not model): scan for the
/// terminating NUL within the harness' bound.
pub unsafe fn cstr_from_ptr_model<'a>(ptr: *const c_char) -> &'a std::ffi::CStr {
    let mut n = 0usize;
    while *(ptr as *const u8).add(n) != 0 {
        n += 1;
        assert!(n <= 4, "C string longer than the harness bound");
    }
    std::ffi::CStr::from_bytes_with_nul_unchecked(std::slice::from_raw_parts(ptr as *const u8, n + 1))
}

/// A header list built by the C caller and read by the library: a node whose value is NULL is
/// skipped, every other node is kept (in list order), a NULL list is empty.
#[kani::proof]
#[kani::unwind(6)]
#[kani::stub(std::ffi::CStr::from_ptr, cstr_from_ptr_model)]
fn c18_ffi_header_list_read_skips_null_value() {
    let v: u8 = kani::any();
    kani::assume(v != 0 && v < 128);
    let n1: [u8; 2] = [b'a', 0];
    let n2: [u8; 2] = [b'b', 0];
    let v2: [u8; 2] = [v, 0];
    let n3: [u8; 2] = [b'c', 0];
    let v3: [u8; 2] = [b'3', 0];
    // list: (a, NULL) -> (b, v) -> (c, "3")
    let node3: (*const c_char, *const c_char, *mut HeaderMap) = (n3.as_ptr() as *const c_char, v3.as_ptr() as *const c_char, std::ptr::null_mut());
    let node2: (*const c_char, *const c_char, *mut HeaderMap) = (n2.as_ptr() as *const c_char, v2.as_ptr() as *const c_char, &node3 as *const _ as *mut HeaderMap);
    let node1: (*const c_char, *const c_char, *mut HeaderMap) = (n1.as_ptr() as *const c_char, std::ptr::null(), &node2 as *const _ as *mut HeaderMap);
    let headers = header_map_to_http_headers(&node1 as *const _ as *const HeaderMap);
    assert!(headers.len() == 2);
    assert!(headers[0].name.as_bytes()[0] == b'b' && headers[0].value.len() == 1 && headers[0].value.as_bytes()[0] == v);
    assert!(headers[1].name.as_bytes()[0] == b'c' && headers[1].value.as_bytes()[0] == b'3');
    kani::cover!(v == b'x');
    std::mem::forget(headers);
}
